package wprog

// Compile: the real tokenizer, parser and checker (fact observer on), plus the
// tables the interpreter needs (structs, methods, locals, consts, statuses).

import (
	"fmt"
	"strings"
	"sync"

	a "github.com/google/wuffs/lang/ast"
	"github.com/google/wuffs/lang/check"
	"github.com/google/wuffs/lang/parse"
	t "github.com/google/wuffs/lang/token"
)

// PackageName is the package name of every generated program.
const PackageName = "vt"

const sourceFilename = "vt.wuffs"

// Program is a parsed and checked case source.
type Program struct {
	tm    *t.Map
	file  *a.File
	facts map[*a.Node][][]*a.Expr

	structs  map[t.ID]*structInfo
	funcs    map[t.QID]*funcInfo // {receiver struct name, func name}
	consts   map[t.ID]*constInfo
	statuses map[t.ID]string // "-literal ID -> C string ("#vt: foo")

	numTypes map[*a.TypeExpr]*numType // cache, guarded by ntMu
	ntMu     sync.Mutex
	constMu  sync.Mutex

	nFuncLines int
}

type structInfo struct {
	node   *a.Struct
	name   string
	fields []fieldInfo
	index  map[t.ID]int
	funcs  map[t.ID]*funcInfo
	nPubCo int
}

type fieldInfo struct {
	name t.ID
	typ  *a.TypeExpr
	priv bool // lives in private_data (second part of the struct)
}

type funcInfo struct {
	node        *a.Func
	recv        *structInfo
	name        string
	pub         bool
	effect      a.Effect
	args        []fieldInfo
	argIdx      map[t.ID]int
	locals      []fieldInfo
	locIdx      map[t.ID]int
	out         *a.TypeExpr
	choosy      bool
	coroID      int  // for pub coroutines: 1, 2, ...
	derived     bool // has an io-typed argument that needs "derived variables" in the C
	derivedArgs map[t.ID]bool
	retStat     bool // returns a status (coroutine or Out is base.status)

	// invalidC: wuffs-c emits `return wuffs_base__make_empty_struct();` for the
	// failed argument check of a public non-coroutine, which does not compile
	// when the function has a result and an argument that needs a check (a
	// refined numeric type, an I/O type or a ptr).
	invalidC bool
}

type constInfo struct {
	node *a.Const
	arr  arrayRef // for roarray consts
}

// numType describes a (possibly refined) numeric type.
type numType struct {
	bits   uint
	signed bool
	lo, hi num // inclusive range incl. refinement
}

var compileMu sync.Mutex

// Compile runs the real tokenizer, parser and check.Check on c.Source (facts
// hook on). A rejection is not an error of the framework: it returns
// (nil, reason, nil). A crash of the tool-chain is returned as err.
func Compile(c *Case) (p *Program, rejected string, err error) {
	compileMu.Lock()
	defer compileMu.Unlock()
	defer func() {
		if r := recover(); r != nil {
			p, rejected, err = nil, "", fmt.Errorf("panic in tokenize/parse/check: %v", r)
		}
	}()

	tm := &t.Map{}
	tokens, _, terr := t.Tokenize(tm, sourceFilename, []byte(c.Source))
	if terr != nil {
		return nil, "tokenize: " + terr.Error(), nil
	}
	file, perr := parse.Parse(tm, sourceFilename, tokens, nil)
	if perr != nil {
		return nil, "parse: " + perr.Error(), nil
	}

	check.VerifFactsEnabled = true
	check.VerifResetFacts()
	_, cerr := check.Check(tm, []*a.File{file}, nil)
	facts := check.VerifFacts
	check.VerifResetFacts()
	if cerr != nil {
		msg := cerr.Error()
		if i := strings.Index(msg, ". Facts:\n"); i >= 0 {
			msg = msg[:i]
		}
		return nil, "check: " + msg, nil
	}

	p = &Program{
		tm:       tm,
		file:     file,
		facts:    facts,
		structs:  map[t.ID]*structInfo{},
		funcs:    map[t.QID]*funcInfo{},
		consts:   map[t.ID]*constInfo{},
		statuses: map[t.ID]string{},
		numTypes: map[*a.TypeExpr]*numType{},
	}
	if err := p.index(); err != nil {
		return nil, "", err
	}
	return p, "", nil
}

func (p *Program) index() error {
	tm := p.tm
	for _, n := range p.file.TopLevelDecls() {
		switch n.Kind() {
		case a.KStatus:
			s := n.AsStatus()
			msg, _ := t.Unescape(s.QID()[1].Str(tm))
			if msg == "" {
				continue
			}
			p.statuses[s.QID()[1]] = msg[:1] + PackageName + ": " + msg[1:]
		case a.KConst:
			c := n.AsConst()
			p.consts[c.QID()[1]] = &constInfo{node: c}
		case a.KStruct:
			s := n.AsStruct()
			si := &structInfo{node: s, name: s.QID()[1].Str(tm), index: map[t.ID]int{}, funcs: map[t.ID]*funcInfo{}}
			for _, f := range s.Fields() {
				f := f.AsField()
				si.index[f.Name()] = len(si.fields)
				si.fields = append(si.fields, fieldInfo{f.Name(), f.XType(), f.PrivateData()})
			}
			p.structs[s.QID()[1]] = si
		}
	}
	for _, n := range p.file.TopLevelDecls() {
		if n.Kind() != a.KFunc {
			continue
		}
		f := n.AsFunc()
		si := p.structs[f.Receiver()[1]]
		if si == nil {
			return fmt.Errorf("wprog: func %s has no receiver struct", f.QQID().Str(tm))
		}
		fi := &funcInfo{
			node:   f,
			recv:   si,
			name:   f.FuncName().Str(tm),
			pub:    f.Public(),
			effect: f.Effect(),
			argIdx: map[t.ID]int{},
			locIdx: map[t.ID]int{},
			out:    f.Out(),
			choosy: f.Choosy(),
		}
		fi.retStat = fi.effect.Coroutine() || (fi.out != nil && fi.out.IsStatus())
		for _, o := range f.In().Fields() {
			o := o.AsField()
			fi.argIdx[o.Name()] = len(fi.args)
			fi.args = append(fi.args, fieldInfo{name: o.Name(), typ: o.XType()})
		}
		for _, o := range f.Body() {
			if o.Kind() != a.KVar {
				break
			}
			v := o.AsVar()
			fi.locIdx[v.Name()] = len(fi.locals)
			fi.locals = append(fi.locals, fieldInfo{name: v.Name(), typ: v.XType()})
		}
		if fi.pub && fi.effect.Coroutine() {
			si.nPubCo++
			fi.coroID = si.nPubCo
		}
		for _, arg := range fi.args {
			if arg.typ.IsIOType() && needDerivedVar(f, arg.name) {
				fi.derived = true
				if fi.derivedArgs == nil {
					fi.derivedArgs = map[t.ID]bool{}
				}
				fi.derivedArgs[arg.name] = true
			}
			if fi.pub && !fi.effect.Coroutine() && fi.out != nil &&
				(arg.typ.IsIOTokenType() || arg.typ.Decorator() == t.IDPtr || arg.typ.IsRefined()) {
				fi.invalidC = true
			}
		}
		si.funcs[f.FuncName()] = fi
		p.funcs[t.QID{f.Receiver()[1], f.FuncName()}] = fi
		p.nFuncLines += len(f.Body())
	}
	return nil
}

// needDerivedVar mirrors internal/cgen/var.go: whether the C needs iop/io0/
// io1/io2 variables for the I/O argument (which changes the function's exit
// path for status-returning non-coroutines).
func needDerivedVar(f *a.Func, name t.ID) bool {
	found := false
	for _, o := range f.Body() {
		o.Walk(func(q *a.Node) error {
			switch q.Kind() {
			case a.KExpr:
				recv, meth, margs, ok := q.AsExpr().IsMethodCall()
				if ok && recv.IsArgsDotFoo() == name && meth != t.IDIsClosed {
					found = true
				}
				// internal/cgen/var.go: the reader argument of limited_copy_u32_from_reader
				if ok && meth == t.IDLimitedCopyU32FromReader && recv.MType() != nil && recv.MType().IsIOType() {
					for _, ma := range margs {
						if ma.AsArg().Value().IsArgsDotFoo() == name {
							found = true
						}
					}
				}
			case a.KIOManip:
				if q.AsIOManip().IO().IsArgsDotFoo() == name {
					found = true
				}
			}
			return nil
		})
	}
	return found
}

// CGenIssues lists the shapes in the program for which the C generator of the
// tree under test is known to fail or to emit C that does not compile (the
// program is accepted by the checker and has a defined meaning, which the
// interpreter follows; RunC reports C11 events for it). Callers use it to
// keep such programs out of trace comparisons.
func (p *Program) CGenIssues() []string {
	var issues []string
	tm := p.tm
	seen := map[string]bool{}
	add := func(s string) {
		if !seen[s] {
			seen[s] = true
			issues = append(issues, s)
		}
	}
	for _, n := range p.file.TopLevelDecls() {
		if n.Kind() != a.KFunc {
			continue
		}
		f := n.AsFunc()
		fi := p.funcs[t.QID{f.Receiver()[1], f.FuncName()}]
		if fi == nil {
			continue
		}
		if fi.pub && fi.out != nil && fi.out.IsBool() {
			add("pub-func-returning-bool")
		}
		n.Walk(func(q *a.Node) error {
			if q.Kind() != a.KExpr {
				return nil
			}
			e := q.AsExpr()
			switch e.Operator() {
			case t.IDOpenParen:
				recv, meth, _, ok := e.IsMethodCall()
				if !ok || recv.MType() == nil {
					return nil
				}
				name := meth.Str(tm)
				switch {
				case recv.MType().IsEitherSliceType() && name == "prefix":
					add("slice-prefix")
				case recv.MType().IsIOType() && e.Effect().Coroutine() &&
					strings.HasPrefix(name, "write_u") && name != "write_u8":
					add("writer-question-method")
				}
			}
			return nil
		})
	}
	return issues
}

// numTypeOf returns the range description of a numeric (or bool) type.
func (p *Program) numTypeOf(typ *a.TypeExpr) *numType {
	if typ == nil {
		return nil
	}
	p.ntMu.Lock()
	defer p.ntMu.Unlock()
	if nt, ok := p.numTypes[typ]; ok {
		return nt
	}
	nt := &numType{}
	switch {
	case typ.IsBool():
		nt.bits, nt.hi = 1, nU(1)
	case typ.IsNumType():
		switch typ.QID()[1] {
		case t.IDU8:
			nt.bits = 8
		case t.IDU16:
			nt.bits = 16
		case t.IDU32:
			nt.bits = 32
		case t.IDU64:
			nt.bits = 64
		case t.IDI8:
			nt.bits, nt.signed = 8, true
		case t.IDI16:
			nt.bits, nt.signed = 16, true
		case t.IDI32:
			nt.bits, nt.signed = 32, true
		case t.IDI64:
			nt.bits, nt.signed = 64, true
		default:
			nt = nil
		}
		if nt != nil && nt.signed {
			nt.hi = nU(maxOfBits(nt.bits - 1))
			nt.lo = nI(-1 << (nt.bits - 1))
		} else if nt != nil {
			nt.hi = nU(maxOfBits(nt.bits))
		}
		if nt != nil {
			if x := typ.Min(); x != nil && x.ConstValue() != nil {
				nt.lo = nBig(x.ConstValue())
			}
			if x := typ.Max(); x != nil && x.ConstValue() != nil {
				nt.hi = nBig(x.ConstValue())
			}
		}
	default:
		nt = nil
	}
	p.numTypes[typ] = nt
	return nt
}

// SourceLine returns the text of a 1-based source line of the case (for
// event nodes); used by the dev tool.
func sourceLine(src string, line uint32) string {
	ls := strings.Split(src, "\n")
	if line >= 1 && int(line) <= len(ls) {
		return strings.TrimSpace(ls[line-1])
	}
	return ""
}
