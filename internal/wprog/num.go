package wprog

// Ideal integers for the reference interpreter. A num is a sign-magnitude
// 64-bit value with a math/big fall-back, so that the overwhelmingly common
// case (unsigned values below 2^64) allocates nothing while results are always
// exact.

import (
	"math/big"
	"math/bits"
)

type num struct {
	u   uint64   // magnitude when b == nil
	neg bool     // sign when b == nil (never set when u == 0)
	b   *big.Int // non-nil: the value (only used when it does not fit u/neg)
}

func nU(u uint64) num { return num{u: u} }

func nI(i int64) num {
	if i < 0 {
		return num{u: uint64(-i), neg: true} // also right for MinInt64
	}
	return num{u: uint64(i)}
}

func nBool(b bool) num {
	if b {
		return num{u: 1}
	}
	return num{}
}

func nBig(x *big.Int) num {
	if x.IsUint64() {
		return num{u: x.Uint64()}
	}
	if x.Sign() < 0 {
		var m big.Int
		m.Neg(x)
		if m.IsUint64() {
			return num{u: m.Uint64(), neg: true}
		}
	}
	return num{b: new(big.Int).Set(x)}
}

func (x num) big() *big.Int {
	if x.b != nil {
		return x.b
	}
	z := new(big.Int).SetUint64(x.u)
	if x.neg {
		z.Neg(z)
	}
	return z
}

func (x num) isZero() bool {
	if x.b != nil {
		return x.b.Sign() == 0
	}
	return x.u == 0
}

func (x num) sign() int {
	if x.b != nil {
		return x.b.Sign()
	}
	if x.u == 0 {
		return 0
	}
	if x.neg {
		return -1
	}
	return 1
}

// isU64 reports whether 0 <= x < 2^64.
func (x num) isU64() bool { return x.b == nil && !x.neg }

func (x num) String() string {
	if x.b != nil {
		return x.b.String()
	}
	return x.big().String()
}

func (x num) cmp(y num) int {
	if x.b == nil && y.b == nil {
		switch {
		case x.neg && !y.neg:
			return -1
		case !x.neg && y.neg:
			return 1
		}
		c := 0
		if x.u < y.u {
			c = -1
		} else if x.u > y.u {
			c = 1
		}
		if x.neg {
			return -c
		}
		return c
	}
	return x.big().Cmp(y.big())
}

func (x num) add(y num) num {
	if x.b == nil && y.b == nil {
		if x.neg == y.neg {
			s, c := bits.Add64(x.u, y.u, 0)
			if c == 0 {
				return num{u: s, neg: x.neg && s != 0}
			}
		} else {
			// different signs: subtract magnitudes
			if x.u >= y.u {
				d := x.u - y.u
				return num{u: d, neg: x.neg && d != 0}
			}
			d := y.u - x.u
			return num{u: d, neg: y.neg && d != 0}
		}
	}
	return nBig(new(big.Int).Add(x.big(), y.big()))
}

func (x num) negate() num {
	if x.b == nil {
		return num{u: x.u, neg: !x.neg && x.u != 0}
	}
	return nBig(new(big.Int).Neg(x.b))
}

func (x num) sub(y num) num { return x.add(y.negate()) }

func (x num) mul(y num) num {
	if x.b == nil && y.b == nil {
		hi, lo := bits.Mul64(x.u, y.u)
		if hi == 0 {
			return num{u: lo, neg: (x.neg != y.neg) && lo != 0}
		}
	}
	return nBig(new(big.Int).Mul(x.big(), y.big()))
}

// quo and rem are only ever applied to non-negative operands with a non-zero
// divisor (the checker demands it; the interpreter checks first), where
// truncated, floored and Euclidean division agree.
func (x num) quo(y num) num {
	if x.isU64() && y.isU64() && y.u != 0 {
		return num{u: x.u / y.u}
	}
	if y.isZero() {
		return num{}
	}
	return nBig(new(big.Int).Quo(x.big(), y.big()))
}

func (x num) rem(y num) num {
	if x.isU64() && y.isU64() && y.u != 0 {
		return num{u: x.u % y.u}
	}
	if y.isZero() {
		return num{}
	}
	return nBig(new(big.Int).Rem(x.big(), y.big()))
}

func (x num) lsh(n uint) num {
	if x.b == nil && n < 64 && (x.u == 0 || bits.LeadingZeros64(x.u) >= int(n)) {
		return num{u: x.u << n, neg: x.neg}
	}
	return nBig(new(big.Int).Lsh(x.big(), n))
}

func (x num) rsh(n uint) num {
	if x.isU64() {
		if n >= 64 {
			return num{}
		}
		return num{u: x.u >> n}
	}
	return nBig(new(big.Int).Rsh(x.big(), n))
}

func (x num) and(y num) num {
	if x.isU64() && y.isU64() {
		return num{u: x.u & y.u}
	}
	return nBig(new(big.Int).And(x.big(), y.big()))
}

func (x num) or(y num) num {
	if x.isU64() && y.isU64() {
		return num{u: x.u | y.u}
	}
	return nBig(new(big.Int).Or(x.big(), y.big()))
}

func (x num) xor(y num) num {
	if x.isU64() && y.isU64() {
		return num{u: x.u ^ y.u}
	}
	return nBig(new(big.Int).Xor(x.big(), y.big()))
}

// wrap reduces x modulo 2^bits (the C conversion to an unsigned type).
func (x num) wrap(nbits uint) uint64 {
	var lo uint64
	if x.b == nil {
		lo = x.u
		if x.neg {
			lo = -lo
		}
	} else {
		var m big.Int
		m.And(x.b, maskBig64) // big.Int And on negative numbers is two's complement
		lo = m.Uint64()
	}
	if nbits >= 64 {
		return lo
	}
	return lo & (1<<nbits - 1)
}

var maskBig64 = new(big.Int).SetUint64(^uint64(0))

func maxOfBits(nbits uint) uint64 {
	if nbits >= 64 {
		return ^uint64(0)
	}
	return 1<<nbits - 1
}
