package wprog

import (
	"fmt"
	"math/rand"
)

// K-families: coroutines, suspension points, locals live across suspensions,
// facts across suspensions, I/O built-ins. S-families: statement lowering.

func init() {
	allFamilies = append(allFamilies,
		family{"K-read-seq", 3, famReadSeq},
		family{"K-read-loop", 5, famReadLoop},
		family{"K-write-loop", 3, famWriteLoop},
		family{"K-yield", 2, famYield},
		family{"K-nested-coro", 6, famNestedCoro},
		family{"K-peek-skip", 4, famPeekSkip},
		family{"K-copy", 4, famCopy},
		family{"S-iterate", 10, famIterate},
		family{"S-const-table", 3, famConstTable},
		family{"S-second-part", 2, famSecondPart},
		family{"S-sat-mod-ops", 1, famSatModOps},
	)
}

// feedCalls builds a block of calls to one coroutine method: the source bytes
// arrive in pieces, the destination capacity grows in pieces.
func feedCalls(r *rand.Rand, method string, data []byte, hasSrc, hasDst bool, dstTotal int, extra []Arg) []Call {
	var out []Call
	pieces := 1 + r.Intn(6)
	if r.Intn(4) == 0 {
		pieces = len(data) + 1 // byte by byte
	}
	off := 0
	dgiven := 0
	for p := 0; p < pieces+2; p++ {
		var args []Arg
		args = append(args, extra...)
		last := p >= pieces-1
		if hasSrc {
			n := 0
			if off < len(data) {
				n = 1 + r.Intn(len(data)-off)
				if pieces > len(data) {
					n = 1
				}
				if last {
					n = len(data) - off
				}
			}
			args = append(args, Arg{Kind: "reader", Reader: &ReaderOp{Append: data[off : off+n], Close: last && off+n == len(data)}})
			off += n
		}
		if hasDst {
			g := 0
			if dgiven < dstTotal {
				g = 1 + r.Intn(dstTotal-dgiven)
				if last {
					g = dstTotal - dgiven
				}
			}
			dgiven += g
			args = append(args, Arg{Kind: "writer", Writer: &WriterOp{Grow: g}})
		}
		out = append(out, Call{Method: method, Args: args})
	}
	return out
}

func randBytes(r *rand.Rand, n int) []byte {
	b := make([]byte, n)
	for i := range b {
		switch r.Intn(4) {
		case 0:
			b[i] = 0
		case 1:
			b[i] = 0xFF
		default:
			b[i] = byte(r.Intn(256))
		}
	}
	return b
}

// a straight-line sequence of reads of different widths; locals live across every suspension
func famReadSeq(g *genctx, v int) *scen {
	m, f1, f2 := g.n("rseq"), g.n("sum"), g.n("last")
	reads := []struct{ fn, typ string }{
		{"read_u8?", "base.u8"}, {"read_u16le?", "base.u16"}, {"read_u16be?", "base.u16"}, {"read_u32le?", "base.u32"}, {"read_u32be?", "base.u32"},
		{"read_u64le?", "base.u64"}, {"read_u64be?", "base.u64"}, {"read_u24le_as_u32?", "base.u32"}, {"read_u24be_as_u32?", "base.u32"},
		{"read_u40le_as_u64?", "base.u64"}, {"read_u48be_as_u64?", "base.u64"}, {"read_u56le_as_u64?", "base.u64"}, {"read_u8_as_u32?", "base.u32"},
		{"read_u16be_as_u64?", "base.u64"}, {"read_u32le_as_u64?", "base.u64"},
	}
	n := 2 + g.r.Intn(4)
	var decl, body, sum string
	total := 0
	for i := 0; i < n; i++ {
		rd := reads[g.r.Intn(len(reads))]
		decl += fmt.Sprintf("    var x%d : %s\n", i, rd.typ)
		body += fmt.Sprintf("    x%d = args.src.%s()\n", i, rd.fn)
		if v == 1 && i == n-1 { // use the first local only after the last suspension
			body += "    this." + f2 + " = (x0 as base.u64) & 0xFFFF\n"
		}
		if i == 0 {
			sum = "(x0 as base.u64)"
		} else {
			sum = fmt.Sprintf("(%s ~mod+ (x%d as base.u64))", sum, i)
		}
		total += 8
	}
	if v == 2 { // early return on a value: later locals are dead on that path
		body += "    if (x0 as base.u64) == 0 {\n        return ok\n    }\n"
	}
	s := &scen{coro: true, features: []string{"coroutine", "read_uN", "multi-byte-suspend"}}
	s.fields = []string{f1 + " : base.u64", f2 + " : base.u64"}
	s.methods = []string{
		fmt.Sprintf("pub func obj.%s?(src: base.io_reader) {\n%s\n%s    this.%s = %s\n}", m, decl, body, f1, sum),
		fmt.Sprintf("pub func obj.%s() base.u64 {\n    return this.%s\n}", g.n("getsum"), f1),
		fmt.Sprintf("pub func obj.%s() base.u64 {\n    return this.%s\n}", g.n("getlast"), f2),
	}
	s.getters = []string{g.n("getsum"), g.n("getlast")}
	s.drive = func(r *rand.Rand) []Call {
		return feedCalls(r, m, randBytes(r, total/2+r.Intn(total)), true, false, 0, nil)
	}
	return s
}

// a loop that stores bytes read from the source; index live across the suspension
func famReadLoop(g *genctx, v int) *scen {
	L := uint64(g.pick(3, 4, 7, 16))
	a, m, cnt := g.n("buf"), g.n("rloop"), g.n("cnt")
	var body string
	switch v {
	case 0:
		body = fmt.Sprintf("    while i < %d {\n        c = args.src.read_u8?()\n        this.%s[i] = c\n        i += 1\n    }\n    this.%s = i", L, a, cnt)
	case 1: // fact about an argument across a suspension must be dropped
		body = fmt.Sprintf("    if args.k < %d {\n        c = args.src.read_u8?()\n        this.%s[args.k] = c\n    }\n    this.%s = args.k", L, a, cnt)
	case 2: // copied to a local first: the fact about the local survives
		body = fmt.Sprintf("    i = args.k\n    if i < %d {\n        c = args.src.read_u8?()\n        this.%s[i] = c\n    }\n    this.%s = i", L, a, cnt)
	case 3: // fact about a field across a suspension
		body = fmt.Sprintf("    if this.%s < %d {\n        c = args.src.read_u8?()\n        this.%s[this.%s] = c\n    }", cnt, L, a, cnt)
	case 4: // break / continue inside, a second local written before and read after the suspension
		body = fmt.Sprintf("    while i < %d {\n        c = args.src.read_u8?()\n        if c == 0xFF {\n            break\n        }\n        d = args.src.read_u8?()\n        if d == 0 {\n            i += 1\n            continue\n        }\n        this.%s[i] = c ~mod+ d\n        i += 1\n    }\n    this.%s = i", L, a, cnt)
	}
	s := &scen{coro: true, features: []string{"coroutine", "loop-suspend", "read_u8"}}
	s.fields = []string{fmt.Sprintf("%s : array[%d] base.u8", a, L), cnt + " : base.u32"}
	s.methods = []string{
		fmt.Sprintf("pub func obj.%s?(src: base.io_reader, k: base.u32) {\n    var i : base.u32\n    var c : base.u8\n    var d : base.u8\n%s\n}", m, body),
		fmt.Sprintf("pub func obj.%s() base.u32 {\n    return this.%s\n}", g.n("getcnt"), cnt),
		fmt.Sprintf("pub func obj.%s() base.u8 {\n    return this.%s[%d]\n}", g.n("getlastb"), a, L-1),
	}
	s.getters = []string{g.n("getcnt"), g.n("getlastb")}
	s.drive = func(r *rand.Rand) []Call {
		k := []uint64{0, L - 1, L, L + 1}[r.Intn(4)]
		calls := feedCalls(r, m, randBytes(r, int(L)/2+r.Intn(int(2*L)+1)), true, false, 0, nil)
		for i := range calls {
			calls[i].Args = append(calls[i].Args, iarg(k))
		}
		return calls
	}
	return s
}

// writes to the destination, suspending when it is full
func famWriteLoop(g *genctx, v int) *scen {
	m, st := g.n("wloop"), g.n("pos")
	var body string
	switch v {
	case 0:
		body = fmt.Sprintf("    while i < args.n {\n        args.dst.write_u8?(a: (i & 0xFF) as base.u8)\n        i ~mod+= 1\n    }\n    this.%s = i", st)
	case 1: // several writes per round, a local computed between them (multi-byte write_uNN? is not implemented by wuffs-c)
		body = fmt.Sprintf("    while i < args.n {\n        args.dst.write_u8?(a: (i & 0xFF) as base.u8)\n        j = i ~mod* 0x01010101\n        args.dst.write_u8?(a: ((j >> 8) & 0xFF) as base.u8)\n        args.dst.write_u8?(a: ((j >> 24) & 0xFF) as base.u8)\n        i ~mod+= 1\n    }\n    this.%s = i", st)
	case 2: // fast write guarded by length
		body = fmt.Sprintf("    while i < args.n {\n        if args.dst.length() >= 4 {\n            args.dst.write_u32le_fast!(a: i)\n        } else {\n            args.dst.write_u8?(a: 0xEE)\n        }\n        i ~mod+= 1\n    }\n    this.%s = i", st)
	}
	s := &scen{coro: true, features: []string{"coroutine", "write", "short-write"}}
	s.fields = []string{st + " : base.u32"}
	s.methods = []string{
		fmt.Sprintf("pub func obj.%s?(dst: base.io_writer, n: base.u32) {\n    var i : base.u32\n    var j : base.u32\n%s\n}", m, body),
		fmt.Sprintf("pub func obj.%s() base.u32 {\n    return this.%s\n}", g.n("getpos"), st),
	}
	s.getters = []string{g.n("getpos")}
	s.drive = func(r *rand.Rand) []Call {
		n := uint64(r.Intn(12))
		calls := feedCalls(r, m, nil, false, true, int(n)*6+r.Intn(4), nil)
		for i := range calls {
			calls[i].Args = append(calls[i].Args, iarg(n))
		}
		return calls
	}
	return s
}

// explicit yields of a package-defined suspension
func famYield(g *genctx, v int) *scen {
	m, t := g.n("tick"), g.n("ticks")
	st := "$" + g.n("waiting")
	body := fmt.Sprintf("    while this.%s < args.n {\n        if this.%s < 100 {\n            this.%s += 1\n        }\n        yield? \"%s\"\n    }", t, t, t, st)
	if v == 1 {
		body = fmt.Sprintf("    var k : base.u32[..= 100]\n    k = this.%s\n    while k < args.n {\n        if k < 100 {\n            k += 1\n        }\n        yield? \"%s\"\n        this.%s = k\n    }", t, st, t)
	}
	s := &scen{coro: true, features: []string{"coroutine", "yield"}}
	s.consts = []string{fmt.Sprintf("pub status \"%s\"", st)}
	s.fields = []string{t + " : base.u32[..= 100]"}
	s.methods = []string{
		fmt.Sprintf("pub func obj.%s?(n: base.u32[..= 100]) {\n%s\n}", m, body),
		fmt.Sprintf("pub func obj.%s() base.u32 {\n    return this.%s\n}", g.n("getticks"), t),
	}
	s.getters = []string{g.n("getticks")}
	s.drive = func(r *rand.Rand) []Call {
		n := uint64(r.Intn(6))
		var out []Call
		for i := 0; i < int(n)+2; i++ {
			out = append(out, Call{Method: m, Args: []Arg{iarg(n)}})
		}
		out = append(out, Call{Method: m, Args: []Arg{iarg(101)}}) // out of the refinement
		return out
	}
	return s
}

// coroutine calling another coroutine; status captured with =?
func famNestedCoro(g *genctx, v int) *scen {
	m, sub, acc, bad := g.n("outer"), g.n("inner"), g.n("acc"), "#"+g.n("bad")
	var body string
	switch v {
	case 0:
		body = fmt.Sprintf("    while i < 3 {\n        this.%s?(src: args.src)\n        i += 1\n    }", sub)
	case 1: // =? keeps the status; errors are turned into a note-free early return
		body = fmt.Sprintf("    while i < 3 {\n        status =? this.%s?(src: args.src)\n        if status.is_error() {\n            return status\n        } else if status.is_suspension() {\n            yield? status\n            continue\n        }\n        i += 1\n    }", sub)
	case 2: // a local computed before the nested call and used after it
		body = fmt.Sprintf("    while i < 3 {\n        j = (i ~mod* 7) ~mod+ 1\n        this.%s?(src: args.src)\n        this.%s ~mod+= j\n        i += 1\n    }", sub, acc)
	case 3: // nested call inside an if inside the loop
		body = fmt.Sprintf("    while i < 4 {\n        if (i & 1) == 0 {\n            this.%s?(src: args.src)\n        } else {\n            this.%s ~mod+= 1000\n        }\n        i += 1\n    }", sub, acc)
	}
	if v >= 4 {
		// the callee takes a numeric argument and uses it after its own suspension
		// points; the caller computes it from a local that is dead afterwards
		// (v == 4: compound expression, v == 5: bare local)
		arg := "(bias ~mod* 3) ~mod+ 1"
		if v == 5 {
			arg = "bias"
		}
		s := &scen{coro: true, features: []string{"coroutine", "nested-coroutine", "call-argument-liveness"}}
		s.fields = []string{acc + " : base.u32"}
		s.methods = []string{
			fmt.Sprintf("pri func obj.%s?(src: base.io_reader, k: base.u32) {\n    var i : base.u32\n    var c : base.u32\n    while i < 3 {\n        c = args.src.read_u8_as_u32?()\n        this.%s = (this.%s ~mod* 31) ~mod+ (c ~mod+ args.k)\n        i += 1\n    }\n}", sub, acc, acc),
			fmt.Sprintf("pub func obj.%s?(src: base.io_reader) {\n    var bias : base.u32\n    bias = args.src.read_u16le_as_u32?()\n    this.%s?(src: args.src, k: %s)\n}", m, sub, arg),
			fmt.Sprintf("pub func obj.%s() base.u32 {\n    return this.%s\n}", g.n("getacc"), acc),
		}
		s.getters = []string{g.n("getacc")}
		s.drive = func(r *rand.Rand) []Call {
			return feedCalls(r, m, randBytes(r, 3+r.Intn(4)), true, false, 0, nil)
		}
		return s
	}
	s := &scen{coro: true, features: []string{"coroutine", "nested-coroutine", "=?"}}
	s.consts = []string{fmt.Sprintf("pub status \"%s\"", bad)}
	s.fields = []string{acc + " : base.u32"}
	s.methods = []string{
		fmt.Sprintf("pri func obj.%s?(src: base.io_reader) {\n    var x : base.u16\n    var y : base.u8\n    x = args.src.read_u16le?()\n    y = args.src.read_u8?()\n    if y == 0xFF {\n        return \"%s\"\n    }\n    this.%s ~mod+= ((x as base.u32) ~mod+ (y as base.u32))\n}", sub, bad, acc),
		fmt.Sprintf("pub func obj.%s?(src: base.io_reader) {\n    var i : base.u32\n    var j : base.u32\n    var status : base.status\n%s\n}", m, body),
		fmt.Sprintf("pub func obj.%s() base.u32 {\n    return this.%s\n}", g.n("getacc"), acc),
	}
	s.getters = []string{g.n("getacc")}
	s.drive = func(r *rand.Rand) []Call {
		return feedCalls(r, m, randBytes(r, 5+r.Intn(9)), true, false, 0, nil)
	}
	return s
}

// peek + skip_u32_fast guarded by length()
func famPeekSkip(g *genctx, v int) *scen {
	m, f := g.n("peek"), g.n("val")
	need := 4
	switch v {
	case 1:
		need = 3 // not enough for peek_u32le
	}
	actual, worst := 4, 4
	if v == 2 {
		actual, worst = 5, 5 // skips more than was proven available
	}
	body := fmt.Sprintf("    if args.src.length() >= %d {\n        this.%s = args.src.peek_u32le()\n        args.src.skip_u32_fast!(actual: %d, worst_case: %d)\n    } else {\n        this.%s = args.src.read_u32le?()\n    }", need, f, actual, worst, f)
	if v == 3 { // peek_u8_at with offset guard
		body = fmt.Sprintf("    if args.src.length() >= 4 {\n        this.%s = args.src.peek_u8_at(offset: 3) as base.u32\n    }\n    args.src.skip_u32?(n: 2)", f)
	}
	s := &scen{coro: true, features: []string{"coroutine", "peek", "skip_fast"}}
	s.fields = []string{f + " : base.u32"}
	s.methods = []string{
		fmt.Sprintf("pub func obj.%s?(src: base.io_reader) {\n%s\n}", m, body),
		fmt.Sprintf("pub func obj.%s() base.u32 {\n    return this.%s\n}", g.n("getval"), f),
	}
	s.getters = []string{g.n("getval")}
	s.drive = func(r *rand.Rand) []Call {
		return feedCalls(r, m, randBytes(r, 2+r.Intn(10)), true, false, 0, nil)
	}
	return s
}

// limited copies between reader, writer, history and slices
func famCopy(g *genctx, v int) *scen {
	m, f := g.n("copy"), g.n("ncopied")
	var body string
	switch v {
	case 0:
		body = fmt.Sprintf("    this.%s = args.dst.limited_copy_u32_from_reader!(up_to: args.n, r: args.src)", f)
	case 1: // history copy guarded by distance <= history length
		body = fmt.Sprintf("    if (args.n > 0) and ((args.n as base.u64) <= args.dst.history_length()) {\n        this.%s = args.dst.limited_copy_u32_from_history!(up_to: 5, distance: args.n)\n    }", f)
	case 2: // unguarded history copy
		body = fmt.Sprintf("    this.%s = args.dst.limited_copy_u32_from_history!(up_to: 5, distance: args.n)", f)
	case 3: // copy from a field slice
		body = fmt.Sprintf("    this.%s = args.dst.limited_copy_u32_from_slice!(up_to: args.n, s: this.%s[.. 6])", f, g.n("tab"))
	}
	s := &scen{coro: true, features: []string{"limited-copy"}}
	s.fields = []string{f + " : base.u32", g.n("tab") + " : array[8] base.u8", g.n("seen") + " : base.u64"}
	s.methods = []string{
		fmt.Sprintf("pub func obj.%s?(src: base.io_reader, dst: base.io_writer, n: base.u32) {\n    this.%s[1] = 0x5A\n    this.%s = args.src.length() ~mod+ args.dst.length()\n%s\n}", m, g.n("tab"), g.n("seen"), body),
		fmt.Sprintf("pub func obj.%s() base.u32 {\n    return this.%s\n}", g.n("getn"), f),
	}
	s.getters = []string{g.n("getn")}
	s.drive = func(r *rand.Rand) []Call {
		var out []Call
		for _, n := range []uint64{0, 1, 3, 5, 9, 1 << 31} {
			cs := feedCalls(r, m, randBytes(r, 1+r.Intn(6)), true, true, 4+r.Intn(8), nil)
			for i := range cs {
				cs[i].Args = append(cs[i].Args, iarg(n))
			}
			out = append(out, cs[:2]...)
		}
		return out
	}
	return s
}

// iterate loops over a slice argument
func famIterate(g *genctx, v int) *scen {
	m, f := g.n("iter"), g.n("h")
	length, adv, unroll := 4, 4, 1
	switch v {
	case 1:
		unroll = 2
	case 2:
		length, adv = 4, 2 // overlapping windows
	case 3:
		length, adv, unroll = 8, 8, 4
	}
	idx := length - 1
	if v >= 7 {
		// near-misses: the else block (windows of 1 or 2 bytes) reaches further
		// than its own window, which only the first block's length would allow
		elseLen, acc := 1, "p[1]"
		switch v {
		case 8:
			acc = "p.peek_u16le()"
		case 9:
			elseLen, acc = 2, "p[3]"
		}
		s := &scen{features: []string{"iterate", "else-block-window"}}
		s.fields = []string{f + " : base.u32"}
		s.methods = []string{
			fmt.Sprintf("pub func obj.%s!(x: roslice base.u8) base.u32 {\n    var p : roslice base.u8\n    var h : base.u32\n    h = this.%s\n    iterate (p = args.x)(length: 4, advance: 4, unroll: 1) {\n        h = (h ~mod* 31) ~mod+ (p[3] as base.u32)\n    } else (length: %d, advance: %d, unroll: 1) {\n        h = (h ~mod* 33) ^ (%s as base.u32)\n    }\n    this.%s = h\n    return h\n}", m, f, elseLen, elseLen, acc, f),
		}
		s.drive = func(r *rand.Rand) []Call {
			var out []Call
			for _, n := range []int{0, 1, 2, 3, 5, 6, 7, 9} {
				out = append(out, Call{Method: m, Args: []Arg{{Kind: "slice", Slice: randBytes(r, n)}}})
			}
			return out
		}
		return s
	}
	if v >= 4 {
		// two (v == 6: three) slices advance together; the shortest one bounds the loop
		switch v {
		case 5:
			length, adv, unroll = 4, 4, 2
		case 6:
			length, adv, unroll = 2, 2, 1
		}
		idx = length - 1
		third, thirdUse, thirdArg := "", "", ""
		if v == 6 {
			third, thirdUse, thirdArg = ", r = args.z", " ~mod+ ((r[0] as base.u32) << 16)", ", z: roslice base.u8"
		}
		s := &scen{features: []string{"iterate", "multi-slice", fmt.Sprintf("unroll%d", unroll)}}
		s.fields = []string{f + " : base.u32"}
		s.methods = []string{
			fmt.Sprintf("pub func obj.%s!(x: roslice base.u8, y: roslice base.u8%s) base.u32 {\n    var p : roslice base.u8\n    var q : roslice base.u8\n    var r : roslice base.u8\n    var h : base.u32\n    h = this.%s\n    iterate (p = args.x, q = args.y%s)(length: %d, advance: %d, unroll: %d) {\n        h = (((h ~mod* 31) ~mod+ (p[0] as base.u32)) ~mod+ ((q[%d] as base.u32) << 8))%s\n    } else (length: 1, advance: 1, unroll: 1) {\n        h = ((h ~mod* 33) ^ (p[0] as base.u32)) ~mod+ (q[0] as base.u32)\n    }\n    this.%s = h\n    return h\n}", m, thirdArg, f, third, length, adv, unroll, idx, thirdUse, f),
		}
		s.drive = func(r *rand.Rand) []Call {
			var out []Call
			for _, nn := range [][3]int{{0, 0, 0}, {8, 8, 8}, {9, 5, 9}, {5, 9, 7}, {16, 3, 16}, {3, 16, 2}, {17, 16, 1}, {12, 11, 13}, {33, 7, 40}, {7, 33, 0}, {4, 4, 5}, {1, 0, 1}} {
				args := []Arg{{Kind: "slice", Slice: randBytes(r, nn[0])}, {Kind: "slice", Slice: randBytes(r, nn[1])}}
				if v == 6 {
					args = append(args, Arg{Kind: "slice", Slice: randBytes(r, nn[2])})
				}
				out = append(out, Call{Method: m, Args: args})
			}
			return out
		}
		return s
	}
	s := &scen{features: []string{"iterate", fmt.Sprintf("unroll%d", unroll)}}
	s.fields = []string{f + " : base.u32"}
	s.methods = []string{
		fmt.Sprintf("pub func obj.%s!(x: roslice base.u8) base.u32 {\n    var p : roslice base.u8\n    var h : base.u32\n    h = this.%s\n    iterate (p = args.x)(length: %d, advance: %d, unroll: %d) {\n        h = ((h ~mod* 31) ~mod+ (p[0] as base.u32)) ~mod+ ((p[%d] as base.u32) << 8)\n    } else (length: 1, advance: 1, unroll: 1) {\n        h = (h ~mod* 33) ^ (p[0] as base.u32)\n    }\n    this.%s = h\n    return h\n}", m, f, length, adv, unroll, idx, f),
	}
	s.drive = func(r *rand.Rand) []Call {
		var out []Call
		for _, n := range []int{0, 1, 3, 4, 5, 7, 8, 9, 16, 17, 33} {
			out = append(out, Call{Method: m, Args: []Arg{{Kind: "slice", Slice: randBytes(r, n)}}})
		}
		return out
	}
	return s
}

// const tables indexed by masked / refined values
func famConstTable(g *genctx, v int) *scen {
	m := g.n("lut")
	tab := "TAB_" + fmt.Sprintf("%X", g.r.Intn(1<<16))
	n := g.pick(4, 8, 16)
	mask := n - 1
	if v == 1 {
		mask = 2*n - 1
	}
	typ := g.picks("base.u8", "base.u16", "base.u32")
	vals := ""
	for i := 0; i < n; i++ {
		if i > 0 {
			vals += ", "
		}
		vals += fmt.Sprint((i*37 + 5) % 251)
	}
	body := fmt.Sprintf("    return %s[args.x & %d]", tab, mask)
	if v == 2 { // element refined by the table type and used as an index again
		body = fmt.Sprintf("    return %s[(%s[args.x & %d] as base.u32) & %d]", tab, tab, mask, mask)
	}
	s := &scen{features: []string{"const-table", typ}}
	s.consts = []string{fmt.Sprintf("pri const %s : roarray[%d] %s = [%s]", tab, n, typ, vals)}
	s.methods = []string{fmt.Sprintf("pub func obj.%s(x: base.u32) %s {\n%s\n}", m, typ, body)}
	s.drive = func(r *rand.Rand) []Call {
		return callsOver(r, m, [][]uint64{{0, 1, uint64(n - 1), uint64(n), uint64(2*n - 1), 1<<32 - 1}}, 10)
	}
	return s
}

// fields in the optionally-uninitialised second part of the struct
func famSecondPart(g *genctx, v int) *scen {
	m, a := g.n("sp"), g.n("big")
	s := &scen{features: []string{"second-part-field"}}
	s.fields2 = []string{fmt.Sprintf("%s : array[64] base.u8", a)}
	body := fmt.Sprintf("    this.%s[args.i & 63] = args.v\n    return this.%s[(args.i ~mod+ 1) & 63]", a, a)
	if v == 1 {
		body = fmt.Sprintf("    var s : slice base.u8\n    s = this.%s[8 .. 16]\n    if ((args.i & 7) as base.u64) < s.length() {\n        s[(args.i & 7) as base.u64] = args.v\n    }\n    return this.%s[8 + (args.i & 7)]", a, a)
	}
	s.methods = []string{fmt.Sprintf("pub func obj.%s!(i: base.u32, v: base.u8) base.u8 {\n%s\n}", m, body)}
	s.drive = func(r *rand.Rand) []Call {
		return callsOver(r, m, [][]uint64{{0, 1, 7, 8, 62, 63, 64, 1<<32 - 1}, {0, 1, 255}}, 16)
	}
	return s
}

// every modular / saturating operator on every width (operator table of cgen)
func famSatModOps(g *genctx, v int) *scen {
	t := g.ityp()
	m := g.n("ops")
	s := &scen{features: []string{"~mod", "~sat", t.name}}
	sh := t.bits - 1
	// binary ~sat+ / ~sat- on u8/u16 and high_bits(n: 0) on u32/u64 make wuffs-c
	// emit invalid / undefined C: those are the G-families' subjects; here the
	// statement forms and a non-zero bit count are used.
	satAdd, satSub := "        return args.x ~sat+ args.y", "        return args.x ~sat- args.y"
	if t.bits < 32 {
		satAdd = "        z = args.x\n        z ~sat+= args.y\n        return z"
		satSub = "        z = args.x\n        z ~sat-= args.y\n        return z"
	}
	hb := fmt.Sprintf("(args.s & %d)", sh)
	if t.bits >= 32 {
		hb = fmt.Sprintf("((args.s & %d) + 1)", sh-1)
	}
	s.methods = []string{fmt.Sprintf(`pub func obj.%s(x: %s, y: %s, k: base.u32, s: base.u32) %s {
    var z : %s
    if args.k == 0 {
        return args.x ~mod+ args.y
    } else if args.k == 1 {
        return args.x ~mod- args.y
    } else if args.k == 2 {
        return args.x ~mod* args.y
    } else if args.k == 3 {
%s
    } else if args.k == 4 {
%s
    } else if args.k == 5 {
        return args.x ~mod<< (args.s & %d)
    } else if args.k == 6 {
        return args.x >> (args.s & %d)
    } else if args.k == 7 {
        return (args.x & args.y) | (args.x ^ args.y)
    } else if args.k == 8 {
        return args.x.min(no_more_than: args.y)
    } else if args.k == 9 {
        return args.x.max(no_less_than: args.y)
    } else if args.k == 10 {
        return args.x.low_bits(n: args.s & %d)
    } else if args.k == 11 {
        return args.x.high_bits(n: %s)
    }
    return z
}`, m, t.name, t.name, t.name, t.name, satAdd, satSub, sh, sh, sh, hb)}
	s.drive = func(r *rand.Rand) []Call {
		xs := edgeVals(r, 0, t.max())
		var ks []uint64
		for k := uint64(0); k < 13; k++ {
			ks = append(ks, k)
		}
		return callsOver(r, m, [][]uint64{xs, xs, ks, {0, 1, uint64(t.bits / 2), uint64(t.bits - 1), uint64(t.bits), 255}}, 160)
	}
	return s
}
