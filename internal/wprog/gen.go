package wprog

// The program generator (DESIGN.md §3.3). Programs are compositions of
// scenario instances; each scenario family targets one mechanism of the
// checker / code generator and has a safe variant (v == 0) plus systematic
// near-misses (v >= 1: constant off by one, < vs <=, guard removed, statement
// moved across its guard, refinement widened, ...). Whether a near-miss is
// accepted is up to the real checker; every accepted program is executed.

import (
	"fmt"
	"math/rand"
	"strings"
)

// scen is one scenario instance.
type scen struct {
	tag      string   // family/variant label, used in signatures and classes
	fields   []string // struct fields (first part)
	fields2  []string // struct fields after the '+'
	consts   []string // top-level declarations (consts, statuses)
	methods  []string // method sources
	getters  []string // zero-argument pure pub getters among the methods
	coro     bool     // contains a coroutine (at most one such scenario per program)
	drive    func(r *rand.Rand) []Call
	features []string // constructs used (for C04's evidence classes)
}

type family struct {
	name      string
	nVariants int
	make      func(g *genctx, v int) *scen
}

// genctx carries the PRNG and the unique prefix of the scenario instance.
type genctx struct {
	r   *rand.Rand
	pfx string // e.g. "s0_"
}

func (g *genctx) n(name string) string { return g.pfx + name }
func (g *genctx) pick(xs ...int) int   { return xs[g.r.Intn(len(xs))] }
func (g *genctx) picks(xs ...string) string {
	return xs[g.r.Intn(len(xs))]
}

// intType describes an unsigned integer type.
type intType struct {
	name string
	bits int
}

var intTypes = []intType{{"base.u8", 8}, {"base.u16", 16}, {"base.u32", 32}, {"base.u64", 64}}

func (t intType) max() uint64 {
	if t.bits == 64 {
		return ^uint64(0)
	}
	return 1<<uint(t.bits) - 1
}

func (g *genctx) ityp() intType { return intTypes[g.r.Intn(len(intTypes))] }

// edgeVals returns interesting values within [lo, hi].
func edgeVals(r *rand.Rand, lo, hi uint64) []uint64 {
	set := map[uint64]bool{}
	add := func(v uint64) {
		if v >= lo && v <= hi {
			set[v] = true
		}
	}
	add(lo)
	add(lo + 1)
	add(hi)
	if hi > 0 {
		add(hi - 1)
	}
	add(lo + (hi-lo)/2)
	for k := uint(0); k < 64; k += 1 + uint(r.Intn(9)) {
		p := uint64(1) << k
		add(p)
		add(p - 1)
		add(p + 1)
	}
	for i := 0; i < 3; i++ {
		if hi-lo == ^uint64(0) {
			add(r.Uint64())
		} else {
			add(lo + r.Uint64()%(hi-lo+1))
		}
	}
	var out []uint64
	for v := range set {
		out = append(out, v)
	}
	// deterministic order
	for i := 1; i < len(out); i++ {
		for j := i; j > 0 && out[j] < out[j-1]; j-- {
			out[j], out[j-1] = out[j-1], out[j]
		}
	}
	return out
}

func iarg(v uint64) Arg { return Arg{Kind: "int", Int: v} }

// callsOver builds calls of one method over the cross product (capped) of the
// per-argument value lists.
func callsOver(r *rand.Rand, method string, vals [][]uint64, cap int) []Call {
	total := 1
	for _, v := range vals {
		total *= len(v)
		if total > 1<<20 {
			total = 1 << 20
		}
	}
	var out []Call
	if total <= cap {
		idx := make([]int, len(vals))
		for {
			var args []Arg
			for i, v := range vals {
				args = append(args, iarg(v[idx[i]]))
			}
			out = append(out, Call{Method: method, Args: args})
			k := len(idx) - 1
			for k >= 0 {
				idx[k]++
				if idx[k] < len(vals[k]) {
					break
				}
				idx[k] = 0
				k--
			}
			if k < 0 {
				break
			}
		}
		return out
	}
	for n := 0; n < cap; n++ {
		var args []Arg
		for _, v := range vals {
			args = append(args, iarg(v[r.Intn(len(v))]))
		}
		out = append(out, Call{Method: method, Args: args})
	}
	return out
}

// allFamilies is filled by the gen_fam_*.go files.
var allFamilies []family

func familyByName(n string) *family {
	for i := range allFamilies {
		if allFamilies[i].name == n {
			return &allFamilies[i]
		}
	}
	return nil
}

// GenOptions steers GenCase.
type GenOptions struct {
	Family    string // restrict to one family ("" = any)
	Variant   int    // -1 = random (biased to near-misses), else the exact variant
	MaxScens  int    // scenarios per program (default 2)
	MaxCalls  int    // history length cap (default 40)
	SafeOnly  bool   // only v == 0 variants (C04/C05 workloads)
	CoroShare int    // percentage of programs that get a coroutine scenario (default 35)
}

// GenCase builds one program + history from the PRNG.
func GenCase(r *rand.Rand, o GenOptions) *Case {
	if o.MaxScens == 0 {
		o.MaxScens = 2
	}
	if o.MaxCalls == 0 {
		o.MaxCalls = 40
	}
	if o.CoroShare == 0 {
		o.CoroShare = 35
	}
	n := 1 + r.Intn(o.MaxScens)
	var scens []*scen
	haveCoro := false
	var tags []string
	for i := 0; i < n; i++ {
		var f *family
		for try := 0; try < 20; try++ {
			if o.Family != "" && i == 0 {
				f = familyByName(o.Family)
			} else {
				f = &allFamilies[r.Intn(len(allFamilies))]
			}
			if f == nil {
				return nil
			}
			// the G-families (known code-generator defects) only appear when asked for
			if strings.HasPrefix(f.name, "G-") && o.Family != f.name {
				f = nil
				continue
			}
			break
		}
		if f == nil {
			continue
		}
		v := 0
		switch {
		case o.SafeOnly:
			v = 0
		case o.Variant >= 0 && i == 0:
			v = o.Variant % f.nVariants
		case f.nVariants > 1 && r.Intn(100) < 60:
			v = 1 + r.Intn(f.nVariants-1)
		}
		g := &genctx{r: r, pfx: fmt.Sprintf("s%d_", i)}
		s := f.make(g, v)
		if s == nil {
			continue
		}
		if s.coro {
			if haveCoro {
				continue
			}
			haveCoro = true
		}
		if s.tag == "" {
			s.tag = fmt.Sprintf("%s/v%d", f.name, v)
		}
		scens = append(scens, s)
		tags = append(tags, s.tag)
	}
	if len(scens) == 0 {
		return nil
	}
	var sb strings.Builder
	var fields, fields2, getters []string
	for _, s := range scens {
		for _, c := range s.consts {
			sb.WriteString(c + "\n\n")
		}
		fields = append(fields, s.fields...)
		fields2 = append(fields2, s.fields2...)
		getters = append(getters, s.getters...)
	}
	classy := "?"
	sb.WriteString("pub struct obj" + classy + "(\n")
	if len(fields) == 0 {
		fields = []string{"unused_field : base.u8"}
	}
	for _, f := range fields {
		sb.WriteString("        " + f + ",\n")
	}
	if len(fields2) > 0 {
		sb.WriteString(") + (\n")
		for _, f := range fields2 {
			sb.WriteString("        " + f + ",\n")
		}
	}
	sb.WriteString(")\n\n")
	for _, s := range scens {
		for _, m := range s.methods {
			sb.WriteString(m + "\n\n")
		}
	}
	c := &Case{ID: strings.Join(tags, "+"), Source: sb.String(), Struct: "obj", Getters: getters}
	// histories: scenario by scenario (a suspended coroutine must be resumed
	// before anything else is called), order shuffled
	order := r.Perm(len(scens))
	for _, i := range order {
		if scens[i].drive != nil {
			c.Calls = append(c.Calls, scens[i].drive(r)...)
		}
	}
	if len(c.Calls) > o.MaxCalls {
		// keep a random contiguous window plus the tail (tails often close readers)
		start := r.Intn(len(c.Calls) - o.MaxCalls + 1)
		c.Calls = c.Calls[start : start+o.MaxCalls]
	}
	return c
}

// Families lists the registered family names and variant counts.
func Families() map[string]int {
	m := map[string]int{}
	for _, f := range allFamilies {
		m[f.name] = f.nVariants
	}
	return m
}

func lines(ss ...string) string { return strings.Join(ss, "\n") }
