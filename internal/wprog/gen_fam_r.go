package wprog

import (
	"fmt"
	"math/rand"
	"strings"
)

// R-families: range computations, index/slice obligations, arithmetic.

func init() {
	allFamilies = append(allFamilies,
		family{"R-mask-index", 4, famMaskIndex},
		family{"R-mod-index", 3, famModIndex},
		family{"R-min-index", 3, famMinIndex},
		family{"R-refined-arg-index", 3, famRefinedArgIndex},
		family{"R-guarded-index", 6, famGuardedIndex},
		family{"R-arith", 6, famArith},
		family{"R-narrow-as", 3, famNarrowAs},
		family{"R-shift", 4, famShift},
		family{"R-div", 3, famDiv},
		family{"R-refined-field", 4, famRefinedField},
		family{"R-compound-small", 4, famCompoundSmall},
		family{"R-slice", 6, famSlice},
		family{"R-refined-local-array", 2, famRefinedLocalArray},
	)
}

func pow2(k int) uint64 { return uint64(1) << uint(k) }

// this.a[args.x & MASK]
func famMaskIndex(g *genctx, v int) *scen {
	k := g.pick(1, 2, 3, 4, 6, 8)
	L := pow2(k)
	mask := L - 1
	alen := L
	switch v {
	case 1:
		alen = L - 1 // array one too short
	case 2:
		mask = L // not a mask of L-1 (values up to L)
	case 3:
		mask = 2*L - 1
	}
	if alen == 0 {
		alen = 1
	}
	at := g.ityp()
	et := g.ityp()
	a, set, get := g.n("a"), g.n("set"), g.n("get")
	s := &scen{features: []string{"index", "and", at.name}}
	s.fields = []string{fmt.Sprintf("%s : array[%d] %s", a, alen, et.name)}
	s.methods = []string{
		fmt.Sprintf("pub func obj.%s!(x: %s, v: %s) {\n    this.%s[args.x & %d] = args.v\n}", set, at.name, et.name, a, mask),
		fmt.Sprintf("pub func obj.%s(x: %s) %s {\n    return this.%s[args.x & %d]\n}", get, at.name, et.name, a, mask),
	}
	s.drive = func(r *rand.Rand) []Call {
		xs := edgeVals(r, 0, at.max())
		xs = append(xs, mask, mask+1, alen, alen-1)
		var out []Call
		for i, x := range xs {
			if x > at.max() {
				continue
			}
			out = append(out, Call{Method: set, Args: []Arg{iarg(x), iarg(uint64(i+1) & et.max())}})
			out = append(out, Call{Method: get, Args: []Arg{iarg(x)}})
		}
		return out
	}
	return s
}

// this.a[args.x % L]
func famModIndex(g *genctx, v int) *scen {
	L := uint64(g.pick(1, 2, 3, 5, 7, 10, 100, 255))
	alen := L
	mod := L
	switch v {
	case 1:
		if L == 1 {
			return nil
		}
		alen = L - 1
	case 2:
		mod = L + 1
	}
	at := g.ityp()
	if mod > at.max() {
		mod = at.max()
		alen = mod
	}
	a, get := g.n("a"), g.n("get")
	s := &scen{features: []string{"index", "mod", at.name}}
	s.fields = []string{fmt.Sprintf("%s : array[%d] base.u8", a, alen)}
	s.methods = []string{
		fmt.Sprintf("pub func obj.%s!(x: %s) base.u8 {\n    this.%s[args.x %% %d] = 7\n    return this.%s[args.x %% %d]\n}", get, at.name, a, mod, a, mod),
	}
	s.drive = func(r *rand.Rand) []Call {
		xs := append(edgeVals(r, 0, at.max()), mod-1, mod, 2*mod-1, alen)
		var vs []uint64
		for _, x := range xs {
			if x <= at.max() {
				vs = append(vs, x)
			}
		}
		return callsOver(r, get, [][]uint64{vs}, 40)
	}
	return s
}

// this.a[args.x.min(no_more_than: L-1)]
func famMinIndex(g *genctx, v int) *scen {
	L := uint64(g.pick(1, 2, 4, 9, 17, 200))
	lim := L - 1
	switch v {
	case 1:
		lim = L
	case 2:
		lim = L + 7
	}
	at := g.ityp()
	if lim > at.max() {
		return nil
	}
	a, get := g.n("a"), g.n("get")
	s := &scen{features: []string{"index", "min", at.name}}
	s.fields = []string{fmt.Sprintf("%s : array[%d] base.u16", a, L)}
	s.methods = []string{
		fmt.Sprintf("pub func obj.%s!(x: %s) base.u16 {\n    this.%s[args.x.min(no_more_than: %d)] = 513\n    return this.%s[args.x.min(no_more_than: %d)]\n}", get, at.name, a, lim, a, lim),
	}
	s.drive = func(r *rand.Rand) []Call {
		xs := edgeVals(r, 0, at.max())
		xs = append(xs, lim, L)
		var vs []uint64
		for _, x := range xs {
			if x <= at.max() {
				vs = append(vs, x)
			}
		}
		return callsOver(r, get, [][]uint64{vs}, 40)
	}
	return s
}

// refined argument used as index (pub functions re-check refined args at run time)
func famRefinedArgIndex(g *genctx, v int) *scen {
	L := uint64(g.pick(1, 3, 4, 16, 100, 256))
	hi := L - 1
	switch v {
	case 1:
		hi = L
	case 2:
		hi = L + 1
	}
	at := intTypes[1+g.r.Intn(3)]
	if hi > at.max() {
		return nil
	}
	a, set, get := g.n("a"), g.n("set"), g.n("get")
	s := &scen{features: []string{"index", "refined-arg", at.name}}
	s.fields = []string{fmt.Sprintf("%s : array[%d] base.u32", a, L), g.n("out") + " : base.u32"}
	s.methods = []string{
		fmt.Sprintf("pub func obj.%s!(i: %s[..= %d], v: base.u32) {\n    this.%s[args.i] = args.v\n}", set, at.name, hi, a),
		fmt.Sprintf("pub func obj.%s!(i: %s[..= %d]) {\n    this.%s = this.%s[args.i]\n}", get, at.name, hi, g.n("out"), a),
		fmt.Sprintf("pub func obj.%s() base.u32 {\n    return this.%s\n}", g.n("getout"), g.n("out")),
	}
	s.getters = []string{g.n("getout")}
	s.drive = func(r *rand.Rand) []Call {
		var out []Call
		for _, x := range []uint64{0, hi, hi + 1, L - 1, L, L + 1, at.max(), hi / 2} {
			if x > at.max() {
				continue
			}
			out = append(out, Call{Method: set, Args: []Arg{iarg(x), iarg(x*3 + 1)}})
			out = append(out, Call{Method: get, Args: []Arg{iarg(x)}})
		}
		return out
	}
	return s
}

// if args.x < L { this.a[args.x] = v }
func famGuardedIndex(g *genctx, v int) *scen {
	L := uint64(g.pick(1, 2, 5, 8, 31, 300))
	at := intTypes[1+g.r.Intn(3)]
	if L+1 > at.max() {
		return nil
	}
	a, m := g.n("a"), g.n("put")
	cond := fmt.Sprintf("args.x < %d", L)
	body := fmt.Sprintf("        this.%s[args.x] = args.v", a)
	after := ""
	switch v {
	case 1:
		cond = fmt.Sprintf("args.x <= %d", L)
	case 2:
		cond = fmt.Sprintf("args.x < %d", L+1)
	case 3: // statement moved out of its guard
		body = "        this." + g.n("n") + " = 1"
		after = fmt.Sprintf("    this.%s[args.x] = args.v\n", a)
	case 4: // guard on the wrong side
		cond = fmt.Sprintf("%d > args.x", L+1)
	case 5: // equivalent safe spelling
		cond = fmt.Sprintf("%d > args.x", L)
	}
	s := &scen{features: []string{"index", "if-fact", at.name}}
	s.fields = []string{fmt.Sprintf("%s : array[%d] base.u8", a, L), g.n("n") + " : base.u32"}
	s.methods = []string{
		fmt.Sprintf("pub func obj.%s!(x: %s, v: base.u8) base.u32 {\n    if %s {\n%s\n        return 1\n    }\n%s    return 0\n}", m, at.name, cond, body, after),
	}
	s.drive = func(r *rand.Rand) []Call {
		var out []Call
		for _, x := range []uint64{0, 1, L - 1, L, L + 1, at.max()} {
			if x <= at.max() {
				out = append(out, Call{Method: m, Args: []Arg{iarg(x), iarg(x & 0xFF)}})
			}
		}
		return out
	}
	return s
}

// arithmetic at type edges: (x & M1) op (y & M2)
func famArith(g *genctx, v int) *scen {
	t := g.ityp()
	op := g.picks("+", "-", "*", "~mod+", "~mod-", "~mod*", "~sat+", "~sat-")
	if (op == "~sat+" || op == "~sat-") && t.bits < 32 {
		t = intTypes[2+g.r.Intn(2)] // the binary form on u8/u16 is the G-sat-small family's subject
	}
	// choose masks so that the safe variant cannot overflow
	k1 := 1 + g.r.Intn(t.bits-1)
	var k2 int
	safe := true
	switch op {
	case "+":
		k1 = 1 + g.r.Intn(t.bits-1)
		k2 = k1
		if k1 == t.bits-1 {
			// both (t.bits-1)-bit values: sum fits in t.bits
		}
	case "*":
		k1 = 1 + g.r.Intn(t.bits-1)
		k2 = t.bits - k1
	case "-":
		k2 = 0
		safe = false // x - y can underflow unless guarded: handled below
	default:
		k1, k2 = t.bits, t.bits
	}
	m1 := pow2(k1) - 1
	if k1 >= 64 {
		m1 = ^uint64(0)
	}
	m2 := pow2(k2) - 1
	if k2 >= 64 {
		m2 = ^uint64(0)
	}
	if v == 1 && (op == "+" || op == "*") { // widen one mask by a bit
		if k1 < 63 {
			m1 = pow2(k1+1) - 1
		}
		if op == "+" && k1 == t.bits-1 {
			m1 = t.max()
		}
		m1 &= t.max()
	}
	name := g.n("calc")
	var body string
	lhs := fmt.Sprintf("(args.x & 0x%X)", m1&t.max())
	rhs := fmt.Sprintf("(args.y & 0x%X)", m2&t.max())
	switch {
	case op == "-":
		// guarded subtraction
		cond := "args.x >= args.y"
		switch v {
		case 1:
			cond = "args.x > args.y" // still safe
		case 2:
			cond = "args.y >= args.x" // wrong way round
		case 3:
			cond = "args.x <> args.y"
		}
		body = fmt.Sprintf("    if %s {\n        return args.x - args.y\n    }\n    return 0", cond)
	case v == 2 && op == "+": // unmasked
		body = "    return args.x + args.y"
	case v == 3: // result narrowed by refinement of the return type
		body = fmt.Sprintf("    return %s %s %s", lhs, op, rhs)
	case v == 4: // three-way associative form
		if op == "+" || op == "*" {
			body = fmt.Sprintf("    return %s %s %s %s 1", lhs, op, rhs, op)
		} else {
			body = fmt.Sprintf("    return %s %s %s", lhs, op, rhs)
		}
	case v == 5: // operands swapped
		body = fmt.Sprintf("    return %s %s %s", rhs, op, lhs)
	default:
		body = fmt.Sprintf("    return %s %s %s", lhs, op, rhs)
	}
	_ = safe
	s := &scen{features: []string{"arith", op, t.name}}
	s.methods = []string{fmt.Sprintf("pub func obj.%s(x: %s, y: %s) %s {\n%s\n}", name, t.name, t.name, t.name, body)}
	s.drive = func(r *rand.Rand) []Call {
		xs := edgeVals(r, 0, t.max())
		xs = append(xs, m1&t.max(), m2&t.max())
		return callsOver(r, name, [][]uint64{xs, xs}, 60)
	}
	return s
}

// (x & M) as narrower
func famNarrowAs(g *genctx, v int) *scen {
	ti := 1 + g.r.Intn(3)
	from := intTypes[ti]
	to := intTypes[g.r.Intn(ti)]
	m := to.max()
	switch v {
	case 1:
		m = to.max()*2 + 1
	case 2:
		m = to.max() + 1
	}
	name := g.n("narrow")
	s := &scen{features: []string{"as", from.name, to.name}}
	s.methods = []string{fmt.Sprintf("pub func obj.%s(x: %s) %s {\n    return (args.x & 0x%X) as %s\n}", name, from.name, to.name, m, to.name)}
	s.drive = func(r *rand.Rand) []Call {
		xs := append(edgeVals(r, 0, from.max()), to.max(), to.max()+1, m)
		return callsOver(r, name, [][]uint64{xs}, 40)
	}
	return s
}

// shifts by a variable amount
func famShift(g *genctx, v int) *scen {
	t := g.ityp()
	name := g.n("shift")
	op := g.picks(">>", "<<", "~mod<<")
	cnt := fmt.Sprintf("(args.s & %d)", t.bits-1)
	lhs := "args.x"
	if op == "<<" {
		// keep the result in range: x has at most half the bits, shift below half
		lhs = fmt.Sprintf("(args.x & 0x%X)", pow2(t.bits/2)-1)
		cnt = fmt.Sprintf("(args.s & %d)", t.bits/2-1)
	}
	switch v {
	case 1:
		cnt = fmt.Sprintf("(args.s & %d)", 2*t.bits-1) // may equal the width
	case 2:
		cnt = "args.s"
	case 3:
		if op == "<<" {
			cnt = fmt.Sprintf("(args.s & %d)", t.bits/2) // one too far
		}
	}
	s := &scen{features: []string{"shift", op, t.name}}
	s.methods = []string{fmt.Sprintf("pub func obj.%s(x: %s, s: base.u32) %s {\n    return %s %s %s\n}", name, t.name, t.name, lhs, op, cnt)}
	s.drive = func(r *rand.Rand) []Call {
		xs := edgeVals(r, 0, t.max())
		ss := []uint64{0, 1, uint64(t.bits/2 - 1), uint64(t.bits / 2), uint64(t.bits - 1), uint64(t.bits), uint64(t.bits + 1), 63, 64, 255, 1 << 31}
		return callsOver(r, name, [][]uint64{xs, ss}, 70)
	}
	return s
}

// division and modulus by a non-zero divisor
func famDiv(g *genctx, v int) *scen {
	t := g.ityp()
	name := g.n("div")
	op := g.picks("/", "%")
	d := "((args.y & 7) + 1)"
	switch v {
	case 1:
		d = "(args.y & 7)"
	case 2:
		d = "args.y"
	}
	s := &scen{features: []string{"div", op, t.name}}
	s.methods = []string{fmt.Sprintf("pub func obj.%s(x: %s, y: %s) %s {\n    return args.x %s %s\n}", name, t.name, t.name, t.name, op, d)}
	s.drive = func(r *rand.Rand) []Call {
		xs := edgeVals(r, 0, t.max())
		ys := []uint64{0, 1, 7, 8, 16, t.max()}
		return callsOver(r, name, [][]uint64{xs, ys}, 50)
	}
	return s
}

// refined field used as an index elsewhere
func famRefinedField(g *genctx, v int) *scen {
	L := uint64(g.pick(2, 3, 10, 16, 64))
	hi := L - 1
	modv := L
	switch v {
	case 1:
		hi = L // field may hold L
		modv = L + 1
	case 2:
		modv = L + 1 // store may exceed the refinement
	case 3:
		hi = L - 1
		modv = L
	}
	f, a, set, use := g.n("f"), g.n("a"), g.n("setf"), g.n("usef")
	s := &scen{features: []string{"refined-field", "index"}}
	s.fields = []string{fmt.Sprintf("%s : base.u32[..= %d]", f, hi), fmt.Sprintf("%s : array[%d] base.u8", a, L)}
	usebody := fmt.Sprintf("    this.%s[this.%s] = args.v\n    return this.%s[this.%s]", a, f, a, f)
	if v == 3 { // arithmetic on the refined field
		usebody = fmt.Sprintf("    this.%s[this.%s] = args.v\n    return this.%s[(this.%s + 1) %% %d]", a, f, a, f, L)
	}
	s.methods = []string{
		fmt.Sprintf("pub func obj.%s!(x: base.u32) {\n    this.%s = args.x %% %d\n}", set, f, modv),
		fmt.Sprintf("pub func obj.%s!(v: base.u8) base.u8 {\n%s\n}", use, usebody),
		fmt.Sprintf("pub func obj.%s() base.u32 {\n    return this.%s\n}", g.n("getf"), f),
	}
	s.getters = []string{g.n("getf")}
	s.drive = func(r *rand.Rand) []Call {
		var out []Call
		for _, x := range []uint64{0, L - 1, L, L + 1, 2*L + 1, 1<<32 - 1, modv - 1, modv} {
			out = append(out, Call{Method: set, Args: []Arg{iarg(x & 0xFFFFFFFF)}})
			out = append(out, Call{Method: use, Args: []Arg{iarg(x & 0xFF)}})
		}
		return out
	}
	return s
}

// compound assignment on small integers after a guard (as hello-wuffs-c does)
func famCompoundSmall(g *genctx, v int) *scen {
	t := intTypes[g.r.Intn(2)]
	lo := uint64(0x30)
	hi := uint64(0x39)
	name := g.n("digit")
	c1, c2 := fmt.Sprintf("args.c < 0x%X", lo), fmt.Sprintf("0x%X < args.c", hi)
	sub := lo
	switch v {
	case 1:
		sub = lo + 1 // may underflow for c == lo
	case 2:
		c1 = fmt.Sprintf("args.c <= 0x%X", lo-1) // equivalent
	case 3:
		c1 = fmt.Sprintf("args.c < 0x%X", lo-1) // lets lo-1 through
	}
	a := g.n("tab")
	s := &scen{features: []string{"compound-assign", "-=", t.name}}
	s.fields = []string{fmt.Sprintf("%s : array[10] base.u8", a)}
	c1 = strings.Replace(c1, "args.c", "d", 1)
	c2 = strings.Replace(c2, "args.c", "d", 1)
	s.methods = []string{fmt.Sprintf("pub func obj.%s!(c: %s) %s {\n    var d : %s\n    d = args.c\n    if (%s) or (%s) {\n        return 0\n    }\n    d -= 0x%X\n    this.%s[d] = 1\n    return d\n}",
		name, t.name, t.name, t.name, c1, c2, sub, a)}
	s.drive = func(r *rand.Rand) []Call {
		xs := []uint64{0, lo - 2, lo - 1, lo, lo + 1, hi - 1, hi, hi + 1, t.max()}
		return callsOver(r, name, [][]uint64{xs}, 20)
	}
	return s
}

// slices of a field array with guards on bounds, and slice arguments
func famSlice(g *genctx, v int) *scen {
	L := uint64(g.pick(4, 8, 16, 33))
	a, m, m2 := g.n("buf"), g.n("fill"), g.n("peek")
	cond := fmt.Sprintf("(args.i <= args.j) and (args.j <= %d)", L)
	switch v {
	case 1:
		cond = fmt.Sprintf("(args.i <= args.j) and (args.j < %d)", L+2)
	case 2:
		cond = fmt.Sprintf("args.j <= %d", L)
	case 3:
		cond = fmt.Sprintf("(args.i < args.j) and (args.j <= %d)", L) // safe, stricter
	}
	idxGuard := "args.k < s.length()"
	switch v {
	case 4:
		idxGuard = "args.k <= s.length()"
	case 5:
		idxGuard = "args.k < 16"
	}
	s := &scen{features: []string{"slice", "slice-length-fact"}}
	s.fields = []string{fmt.Sprintf("%s : array[%d] base.u8", a, L)}
	s.methods = []string{
		fmt.Sprintf("pub func obj.%s!(i: base.u32, j: base.u32, v: base.u8) base.u64 {\n    var s : slice base.u8\n    var n : base.u64\n    if %s {\n        s = this.%s[args.i .. args.j]\n        n = s.length()\n        if s.length() > 0 {\n            s[0] = args.v\n        }\n    }\n    return n\n}", m, cond, a),
		fmt.Sprintf("pub func obj.%s(s: roslice base.u8, k: base.u64) base.u8 {\n    var s : roslice base.u8\n    s = args.s\n    if %s {\n        return s[args.k]\n    }\n    return 0\n}", m2, idxGuard),
	}
	s.drive = func(r *rand.Rand) []Call {
		var out []Call
		vals := []uint64{0, 1, L - 1, L, L + 1, L + 2, 1 << 31}
		for _, i := range vals {
			for _, j := range vals {
				if r.Intn(3) == 0 {
					out = append(out, Call{Method: m, Args: []Arg{iarg(i), iarg(j), iarg((i + j) & 0xFF)}})
				}
			}
		}
		for _, n := range []int{0, 1, 5, 16, 17} {
			b := make([]byte, n)
			for i := range b {
				b[i] = byte(i*7 + 1)
			}
			for _, k := range []uint64{0, uint64(n) - 1, uint64(n), uint64(n) + 1, 15, 16} {
				out = append(out, Call{Method: m2, Args: []Arg{{Kind: "slice", Slice: b}, iarg(k)}})
			}
		}
		return out
	}
	return s
}

// local arrays with refined element types are zero-initialised: a known hole
func famRefinedLocalArray(g *genctx, v int) *scen {
	name, a := g.n("rla"), g.n("a")
	elem := "base.u8[1 ..= 3]"
	if v == 1 {
		elem = "base.u8[..= 3]" // zero is allowed: t[1] - 1 is then rejected or guarded
	}
	body := fmt.Sprintf("    var t : array[4] %s\n    if args.k > 0 {\n        t[0] = 2\n    }\n    this.%s[t[1] - 1] = 9\n    return this.%s[0]", elem, a, a)
	if v == 1 {
		body = fmt.Sprintf("    var t : array[4] %s\n    if args.k > 0 {\n        t[0] = 2\n    }\n    this.%s[t[1]] = 9\n    return this.%s[0]", elem, a, a)
	}
	s := &scen{features: []string{"refined-local-array"}}
	s.fields = []string{fmt.Sprintf("%s : array[4] base.u8", a)}
	s.methods = []string{fmt.Sprintf("pub func obj.%s!(k: base.u32) base.u8 {\n%s\n}", name, body)}
	s.drive = func(r *rand.Rand) []Call {
		return callsOver(r, name, [][]uint64{{0, 1}}, 4)
	}
	return s
}
