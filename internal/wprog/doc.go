// Package wprog runs generated Wuffs programs two ways and hands back both
// traces plus monitor events (contract: /verif/tools/WPROG_SPEC.md).
//
//	p, rejected, err := wprog.Compile(c)   // real tokenizer, parser, check.Check; facts hook on
//	out := p.Interpret(c)                  // reference semantics + C01/C02 monitors
//	traces, events, err := wprog.RunC(env, cases) // real wuffs-c, gcc -O2 or ASan+UBSan
//
// # Interpreter
//
// Ideal integers (num.go) everywhere; `~mod` operators wrap to the operand
// type, `~sat` clamp; every other operator is exact and carries an obligation
// (kinds: index-out-of-range, slice-bounds, overflow:+ - * << neg, div-by-zero,
// shift-count, as-range, assign-range, arg-range, return-range, pre:<built-in>).
// Obligations are derived from types, never from a node's MBounds. After a
// violation execution continues with the value the C would compute (wrapped),
// or with the operation skipped for out-of-range memory accesses.
//
// Facts: before each statement every snapshot of check.VerifFacts is evaluated
// in ideal arithmetic with the monitors off (pure user methods are executed);
// what cannot be evaluated is counted in Stats.FactsSkipped. assert / pre /
// inv / post are evaluated where the checker proves them (entry, every
// continue and the loop bottom for pre+inv; natural exit and every break for
// inv+post).
//
// Coroutines: every coroutine function owns at most one suspended activation
// (a goroutine with strict hand-off, so the interpretation is deterministic
// and single-threaded in effect). A call resumes the activation if there is
// one, with the arguments of the new call, exactly like the generated C. All
// numeric, bool, status and array locals survive; locals that hold pointers
// (slices, io_reader / io_writer variables) are re-initialised on resumption,
// which is what both the checker (it drops their facts) and the C do.
//
// Object protocol: magic / disabled / run-time argument checks / interleaved
// coroutine detection follow internal/cgen/func.go for every call of a pub
// function, also for calls made from Wuffs code.
//
// Extra events (Prop is not C01/C02, the execution is still well defined in
// the ideal semantics but the generated C is known to differ):
//
//	C04 stale-coroutine-state           a resumed coroutine ended with a non-ok, non-suspension status
//	                                    through the C's `goto exit` and is called again
//	C01 suspend-inside-X / resume-inside-X / jump-out-of-X   (X = io_bind, io_limit, iterate)
//
// Unsupported (Outcome.Unsupported, Outcome.Err() wraps ErrUnsupported):
// pointers (ptr / nptr), tables, tokens, cpu_arch and SIMD, `use`, slices of
// anything but base.u8, io_forget_history, match7, valid_utf_8_length,
// uintptr_low_12_bits, bulk_*, utility.make_*, slice.prefix and the `?`
// writer methods other than write_u8? (wuffs-c cannot generate those),
// `=?` with a built-in coroutine, break / continue across an iterate body,
// nested io_bind of one variable, assignment to I/O variables, and the two
// shapes for which wuffs-c emits C that does not compile (a pub non-coroutine
// with a result and a refined / I/O / ptr argument; an I/O argument only used
// as an argument of a built-in).
//
// # C side
//
// RunC generates each case with `wuffs-c gen -package_name vtNNNN -genlinenum`,
// puts a batch of packages plus a replay main() into one translation unit,
// links it against a base object compiled once (WUFFS_CONFIG__MODULE__BASE__CORE,
// WUFFS_CONFIG__AVOID_CPU_ARCH) and runs the binary once; every case executes
// in a forked child. Status strings are mapped back from "vtNNNN: " to "vt: ".
// Sanitizer reports become Event{Prop: "C01", Kind: "sanitizer:ubsan:..."|
// "sanitizer:asan:..."} with the Wuffs source line recovered from the
// genlinenum comments; tool-chain failures become Prop "C11" events
// (wuffs-c-failed, cc-failed, c-timeout).
package wprog
