// Package wprog: generated Wuffs programs, their reference interpreter and
// their C traces. See /verif/tools/WPROG_SPEC.md.
package wprog

import "errors"

// Case is one generated program plus a call history on one object.
type Case struct {
	ID      string   `json:"id"`
	Source  string   `json:"source"`
	Struct  string   `json:"struct"`
	Calls   []Call   `json:"calls"`
	Getters []string `json:"getters"`
}

type Call struct {
	Method string `json:"method"`
	Args   []Arg  `json:"args"`
}

type Arg struct {
	Kind   string    `json:"kind"` // "int" | "bool" | "reader" | "writer" | "slice"
	Int    uint64    `json:"int,omitempty"`
	Reader *ReaderOp `json:"reader,omitempty"`
	Writer *WriterOp `json:"writer,omitempty"`
	Slice  []byte    `json:"slice,omitempty"`
}

type ReaderOp struct {
	Append []byte `json:"append,omitempty"`
	Close  bool   `json:"close,omitempty"`
}

type WriterOp struct {
	Grow int `json:"grow,omitempty"`
}

// Rec is one call's observable result.
type Rec struct {
	Method  string   `json:"method"`
	Ret     string   `json:"ret"`
	SrcRI   uint64   `json:"src_ri"`
	SrcWI   uint64   `json:"src_wi"`
	DstRI   uint64   `json:"dst_ri"`
	DstWI   uint64   `json:"dst_wi"`
	DstHash uint64   `json:"dst_hash"`
	Slices  []uint64 `json:"slices,omitempty"`
	Getters []string `json:"getters,omitempty"`
}

// Event is one monitor observation.
type Event struct {
	Prop   string `json:"prop"` // "C01" | "C02"
	Kind   string `json:"kind"`
	Node   string `json:"node"` // source line + expression / statement text
	Line   uint32 `json:"line"`
	Fact   string `json:"fact,omitempty"`
	Values string `json:"values,omitempty"`
	Limit  string `json:"limit,omitempty"`
	Call   int    `json:"call"`            // index into Case.Calls
	Count  int    `json:"count,omitempty"` // further occurrences of the same event (same prop, kind, line, fact) folded into this one
}

// Stats counts what the monitors evaluated.
type Stats struct {
	Obligations  map[string]int64 `json:"obligations"`   // by kind
	NearEdge     map[string]int64 `json:"near_edge"`     // by kind: value within 1 of its limit
	FactsEval    map[string]int64 `json:"facts_eval"`    // by shape class
	FactsNontriv map[string]int64 `json:"facts_nontriv"` // by shape class: not implied by the types alone
	FactsSkipped int64            `json:"facts_skipped"`
	Suspensions  int64            `json:"suspensions"`
	Statements   map[string]int64 `json:"statements"` // executed, by kind
	Steps        int64            `json:"steps"`
}

// Env locates the tools of the C side.
type Env struct {
	WuffsC   string // path of the wuffs-c binary built from the tree under test
	Root     string // scratch wuffs root (has wuffs-root-directory.txt)
	BaseC    string // generated base C (or release C) to compile against
	Scratch  string // directory for generated files
	Sanitize bool   // build with ASan+UBSan instead of -O2
}

// Outcome is the interpreter's result for one case.
type Outcome struct {
	Trace       []Rec   `json:"trace"`
	Events      []Event `json:"events"`
	Unsupported string  `json:"unsupported,omitempty"`
	Stats       Stats   `json:"stats"`
}

// ErrUnsupported marks constructs outside the interpreter's subset.
var ErrUnsupported = errors.New("wprog: unsupported construct")

// Err returns an error wrapping ErrUnsupported if the interpreter left the
// subset (step budget, construct outside the subset, shapes for which wuffs-c
// emits invalid C), nil otherwise.
func (o *Outcome) Err() error {
	if o == nil || o.Unsupported == "" {
		return nil
	}
	return &unsupportedError{o.Unsupported}
}

type unsupportedError struct{ msg string }

func (e *unsupportedError) Error() string { return "wprog: unsupported construct: " + e.msg }
func (e *unsupportedError) Unwrap() error { return ErrUnsupported }
