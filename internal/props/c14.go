package props

import (
	"fmt"
	"os"
	"path/filepath"
	"regexp"
	"strings"

	"verif/internal/drv"
	"verif/internal/vk"
)

func init() {
	Table["C14"] = Prop{Run: func(r *drv.Run) drv.Spec {
		// (1) cgo-free build: the Go runtime's own deadlock detector is the hang oracle.
		bin, err := r.BuildGo("./cmd/vmon", "vmon-nocgo", drv.BuildOpts{Tags: "verif", NoCgo: true})
		if err != nil {
			drv.Fatal("%v", err)
		}
		r.RunShards(bin, "C14", 16, []string{"C14"}, drv.ChildOpts{
			WallSec: 3000, CPUSec: 2400, CrashIsViol: true, CrashSigPfx: "rac-reader:crash:",
		})
		// (2) race-detector build of the same workload (smaller), verdict = race log only.
		crashed := false
		for _, v := range r.Res.Violations {
			if strings.Contains(v.Sig, ":crash:") {
				crashed = true
			}
		}
		if crashed {
			// A deadlock cannot be detected in a cgo build; the race child would only hang.
			drv.Logf("C14: skipping the -race phase because the cgo-free phase crashed/deadlocked")
		}
		if r.Replay == "" && !crashed {
			rbin, err := r.BuildGo("./cmd/vmon", "vmon-race", drv.BuildOpts{Tags: "verif", Race: true})
			if err != nil {
				drv.Fatal("%v", err)
			}
			logp := filepath.Join(r.Scratch, "race")
			before := len(r.Res.Violations)
			r.RunShards(rbin, "C14race", 8, []string{"C14"}, drv.ChildOpts{
				WallSec: 3000,
				Env:     []string{"VERIF_C14_MODE=race", "GORACE=halt_on_error=0 log_path=" + logp},
			})
			_ = before
			races := collectRaces(logp)
			for sig, blk := range races {
				r.Res.Violations = append(r.Res.Violations, vk.Violation{
					Sig: "rac-reader:data-race:" + sig, What: "data race reported by the Go race detector: " + sig,
					Replay: map[string]interface{}{"report": blk},
				})
			}
			if r.Res.Counters == nil {
				r.Res.Counters = map[string]int64{}
			}
			r.Res.Counters["race_report_blocks"] = int64(len(races))
		}
		return drv.Spec{
			Level: "exploration",
			Rule: "cases = (RAC file from the real writer, seeded history of <=40 Read/Seek/SeekRange/Close calls, Concurrency in {0,1,2,4,16}, GOMAXPROCS in {1,2,4,16}, seeded schedule perturbation at the verifSched hook sites); " +
				"distinct = (sequential|concurrent, chunk-count class, history shape: seek-after-read / seek-with-work-outstanding / eof / range) tuples executed and compared with the in-memory model; schedule_signatures counts distinct hook-site orders observed",
			Assumptions: []string{
				"reference = the bytes given to the writer (files whose plain sequential decode differs are skipped and counted: that is C13's concern)",
				"after a call returns a non-EOF error the history ends (rac.Reader documents sticky errors; bytes.Reader does not have them)",
				"deadlock verdict = Go runtime 'all goroutines are asleep' in a CGO_ENABLED=0 child; data races = Go race detector reports in a separate -race child; no wall-clock verdicts",
			},
			MinEvals: 500, MinClasses: 8,
		}
	}}
}

var reRaceFrame = regexp.MustCompile(`(?m)^\s+(github\.com/google/wuffs/[^\s(]+)\(`)

// collectRaces reads GORACE log files and de-duplicates report blocks by the
// first two wuffs frames.
func collectRaces(prefix string) map[string]string {
	out := map[string]string{}
	files, _ := filepath.Glob(prefix + ".*")
	for _, f := range files {
		b, err := os.ReadFile(f)
		if err != nil {
			continue
		}
		for _, blk := range strings.Split(string(b), "==================") {
			if !strings.Contains(blk, "WARNING: DATA RACE") {
				continue
			}
			fr := reRaceFrame.FindAllStringSubmatch(blk, 4)
			var names []string
			for _, m := range fr {
				n := strings.TrimPrefix(m[1], "github.com/google/wuffs/")
				if len(names) == 0 || names[len(names)-1] != n {
					names = append(names, n)
				}
				if len(names) == 2 {
					break
				}
			}
			sig := strings.Join(names, "<->")
			if sig == "" {
				sig = "unknown-frames"
			}
			if _, ok := out[sig]; !ok {
				if len(blk) > 4000 {
					blk = blk[:4000]
				}
				out[sig] = blk
			}
		}
	}
	_ = fmt.Sprint
	return out
}
