package props

import (
	"encoding/hex"
	"fmt"
	"strings"

	"verif/internal/cbuild"
	"verif/internal/corpus"
	"verif/internal/drv"
	"verif/internal/vk"
	"verif/internal/wd"
)

// C09: results depend only on the input, not on memory garbage, init flags or CPU paths.

func init() {
	Table["C09"] = Prop{Run: runC09}
}

type c09variant struct {
	name    string
	build   string
	opts    string // job options appended
	needPre bool   // decode another input of the same kind first, then re-initialise
}

var c09variants = []c09variant{
	{name: "zeroed+already-zeroed", build: "asan", opts: " prefill=00 opts=1 wfill=00"},
	{name: "ff-memory", build: "asan", opts: " prefill=ff opts=0 wfill=ff"},
	{name: "prng-memory+leave-uninit", build: "asan", opts: " prefill=r11 opts=2 wfill=a5"},
	{name: "reinit-after-other-decode", build: "asan", opts: " prefill=a5 opts=0 wfill=00", needPre: true},
	{name: "reinit-after-other-decode+leave-uninit", build: "asan", opts: " prefill=r5 opts=2 wfill=ff", needPre: true},
	{name: "portable-build", build: "asan-nosimd", opts: " prefill=00 opts=0 wfill=00"},
	{name: "portable-build+leave-uninit", build: "asan-nosimd", opts: " prefill=r9 opts=2 wfill=a5"},
	{name: "O2-simd", build: "plain", opts: " prefill=a5 opts=0 wfill=ff"},
	{name: "O2-portable", build: "nosimd", opts: " prefill=ff opts=2 wfill=00"},
}

func runC09(r *drv.Run) drv.Spec {
	sp := drv.Spec{
		Level: "exploration",
		Rule: "cases = (decoder or hasher, input) decoded under every variant of {object memory zeroed + ALREADY_ZEROED, 0xFF, PRNG garbage + LEAVE_INTERNAL_BUFFERS_UNINITIALIZED, re-initialised after decoding another input, work buffers / destination beyond wi pre-filled differently, SIMD build vs WUFFS_CONFIG__AVOID_CPU_ARCH build, -O1 sanitized vs -O2}; all variants must agree on output bytes/pixels, statuses, consumed counts and getters; mutated JPEGs are compared within one build only (the documented IDCT exception); " +
			"distinct = (decoder, variant, input class: valid|mutated|file, final status class) tuples compared with the baseline variant",
		Assumptions: []string{"this CPU has SSE4.2/AVX2/BMI2/PCLMUL so the SIMD build takes the choose'n variants; which variant ran is not read back from the object", "the pixel buffer's pre-fill is the same in all variants (pixels a truncated image never writes are not output)"},
		MinEvals:    500, MinClasses: 40,
	}
	e := newCenv(r, cbuild.VAsan, cbuild.VAsanNoSimd, cbuild.VPlain, cbuild.VNoSimd)
	nValid, nFiles, mutPer := 150, 120, 2
	if r.Thorough() {
		nValid, nFiles, mutPer = 4000, 100000, 8
	}
	items := hostileCorpus(r, "c09", nValid, nFiles, mutPer, 150<<10)
	// LZMA with a tiny dictionary on long periodic data (the ring buffer's seams)
	nsd := 4
	if r.Thorough() {
		nsd = 40
	}
	for i := 0; i < nsd; i++ {
		if sd, err := corpus.SmallDictItems(vk.CaseRNG(r.Seed, 0, "c09smalldict", int64(i))); err == nil {
			items = append(items, sd...)
		}
	}
	// GIFs without any colour table (the decoder's default palette lives in
	// memory that LEAVE_INTERNAL_BUFFERS_UNINITIALIZED does not clear)
	for i := 0; i < 2*nsd; i++ {
		if g := corpus.GIFNoPaletteItem(vk.CaseRNG(r.Seed, 0, "c09gifnopal", int64(i)), i%2 == 1); g != nil {
			items = append(items, g)
		}
	}
	if err := corpus.WriteItems(r.Scratch+"/c09", items, "v"); err != nil {
		drv.Fatal("%v", err)
	}
	// a partner input per kind for the re-initialise variants
	partner := map[string]string{}
	for _, it := range items {
		if _, ok := partner[it.Kind]; !ok && !strings.HasPrefix(it.Setting, "mutated") && !strings.HasPrefix(it.Setting, "other-format") && it.Setting != "random-bytes" {
			partner[it.Kind] = it.Path
		}
	}
	type key struct{ build string }
	jobsBy := map[string][]*wd.Job{}
	type ref struct {
		item    *corpus.Item
		variant int
	}
	for i, it := range items {
		rr := vk.CaseRNG(r.Seed, 0, "c09job", int64(i))
		base := fmt.Sprintf("job=decode kind=%s in=%s cpu=40 maxframes=4 dfill=00", it.Kind, it.Path)
		switch {
		case isHasher(it.Kind):
			base += " splits=" + randSplits(rr, len(it.Enc), 5)
		case isImage(it.Kind):
			base += " wb=max pixfmt=" + []string{"bgra", "native"}[rr.Intn(2)]
		case isToken(it.Kind):
			base += " tcap=64"
		default:
			base += " dtotal=2000000" + wbFor(it.Kind)
			if rr.Intn(3) == 0 {
				base += " splits=" + randSplits(rr, len(it.Enc), 5)
			}
			// the same capacity plan in every variant: a decode in several calls
			// keeps its history in the work buffer, whose pre-fill differs per variant
			if rr.Intn(2) == 0 || it.PClass == "periodic" {
				base += " dcaps=" + randSplits(rr, 9000, 60)
				if it.PClass == "periodic" {
					// a client with a small fixed destination buffer that it drains
					// after every call (as example/zcat does): the decoder's history
					// then lives in the work buffer only, in pieces well below the
					// 4 KiB dictionary
					base = base[:strings.LastIndex(base, " dcaps=")] + fmt.Sprintf(" mode=compact sbuf=4096 dbuf=%d", 300+rr.Intn(1200))
				}
			}
		}
		for vi, v := range c09variants {
			line := base + v.opts
			if v.needPre {
				p, ok := partner[it.Kind]
				if !ok || p == it.Path {
					continue
				}
				line += " prein=" + p
			}
			if !isImage(it.Kind) && !isHasher(it.Kind) && !isToken(it.Kind) {
				// destination bytes beyond wi hold different garbage per variant
				line = strings.Replace(line, " dfill=00", " dfill="+[]string{"00", "ff", "a5"}[vi%3], 1)
			}
			jobsBy[v.build] = append(jobsBy[v.build], &wd.Job{Text: line + "\n", Tag: ref{it, vi}})
		}
	}
	results := map[*corpus.Item]map[int]*wd.Result{}
	for build, jobs := range jobsBy {
		res := e.run(build, jobs, "c09-"+build, 3000)
		for _, rs := range res {
			if rs == nil {
				continue
			}
			rf := rs.Job.Tag.(ref)
			if results[rf.item] == nil {
				results[rf.item] = map[int]*wd.Result{}
			}
			results[rf.item][rf.variant] = rs
		}
	}
	for _, it := range items {
		rs := results[it]
		desc := itemDesc(it)
		if len(it.Enc) <= 1<<16 {
			desc["enc_hex"] = hex.EncodeToString(it.Enc)
		}
		base := rs[0]
		if base == nil || !e.commonMonitors("variant", c09variants[0].build, base, desc) {
			continue
		}
		bo := base.First()
		cls := "valid"
		switch {
		case strings.HasPrefix(it.Setting, "mutated"), strings.HasPrefix(it.Setting, "other-format"), it.Setting == "random-bytes":
			cls = "hostile"
		case it.Setting == "testdata":
			cls = "file"
		}
		for vi := 1; vi < len(c09variants); vi++ {
			v := c09variants[vi]
			x := rs[vi]
			if x == nil || !e.commonMonitors("variant", v.build, x, desc) {
				continue
			}
			// the documented JPEG exception: SIMD vs portable IDCT need only agree on encoder-produced files
			crossCPU := strings.Contains(v.build, "nosimd")
			if it.Kind == "jpeg" && crossCPU && cls == "hostile" {
				e.count("jpeg_cross_cpu_skipped", 1)
				continue
			}
			o := x.First()
			e.eval(1)
			if d := summaryDiff(it.Kind, bo, o); d != "" {
				dd := copyMap(desc)
				dd["baseline_job"], dd["baseline"] = base.Job.Text, bo
				dd["job"], dd["result"] = x.Job.Text, o
				e.viol(fmt.Sprintf("variant-dependence:%s:%s", it.Kind, v.name), fmt.Sprintf("%s [%s %s]: variant %q differs from %q: %s", it.Kind, it.Name, it.Setting, v.name, c09variants[0].name, d), dd)
			}
			e.class(fmt.Sprintf("%s|%s|%s|%s", it.Kind, v.name, cls, clsStatus(wd.Str(bo, "status"))))
		}
		if len(e.r.Res.Samples) < 4 && base.Idx%53 == 0 {
			e.sample(map[string]interface{}{"item": itemDesc(it), "baseline_job": strings.TrimSpace(base.Job.Text), "baseline": bo, "variants": len(rs)})
		}
	}
	return sp
}
