package props

import "verif/internal/drv"

func init() {
	goLib("C16", 16, drv.ChildOpts{WallSec: 7200, CPUSec: 6000, CrashIsViol: true, CrashSigPfx: "crash:"}, drv.Spec{
		Level: "exploration",
		Rule: "valid streams = payload class (empty, 1 byte, text, runs, random, repeat at ~32 KiB distance, mixed) x encoder (compress/flate and compress/zlib at levels -2..9 with random Write/Flush patterns and preset dictionaries; hand-assembled stored/fixed/dynamic blocks with random valid trees, empty blocks in the middle and at the end, odd bit alignments, literal-only first Huffman blocks longer than 64 KiB that are longer than their data) x format (raw DEFLATE, zlib); " +
			"limits = every limit from SmallestValidMaxEncodedLen to len(stream)+2 for streams <= 2048 bytes (exhaustive per stream: counters streams_exhaustive_limits / limits_in_exhaustive_sweeps), block-boundary-, symbol-boundary-, 65540- and end-targeted plus random limits for longer ones; every limit is cut once with a nil writer and once with a writer; " +
			"evaluations = successful cuts checked against compress/flate|zlib and the original payload, plus robustness calls; " +
			"distinct = (format, block-type sequence of the input from the monitor's own block scanner [+dict when a match reaches into the preset dictionary], path that answered [whole, block-boundary, stored-shorten, huffman-cut-F/D, fallback-single-stored, fallback-empty-fixed] inferred from the output's first block header and length, position class of the limit in the input [first/later block, block type, header/first symbols/middle/last symbols/end-of-block code, exact, beyond, limit <= 5]) tuples of checked successful cuts, plus (format, input kind, outcome) of robustness calls",
		Assumptions: []string{
			"compress/flate and compress/zlib decoders are correct and, reading from a bytes.Reader, consume exactly the bytes of the stream",
			"a Cut that returns an error is outside the property (counted as valid_stream_cut_error:*; they occur for streams that reference a preset dictionary, which the packages re-decode without it, for zlib limits too small for an FDICT header, and for a distance tree without codes)",
			"streams whose decoded length would overflow int32 (> 2 GiB) are not generated",
			"generator cases where compress/flate.NewWriterDict itself emits a stream that does not encode the payload are skipped (generator_go_dict_quirk_skipped)",
			"robustness requires only: no panic, and nil error => 0 <= encodedLen <= min(limit, len(buf))",
		},
		MinEvals: 100000, MinClasses: 300,
	})
}
