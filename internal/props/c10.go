package props

import (
	"bufio"
	"bytes"
	"crypto/sha256"
	"encoding/hex"
	"encoding/json"
	"fmt"
	"os"
	"os/exec"
	"path/filepath"
	"regexp"
	"sort"
	"strings"
	"sync"
	"syscall"
	"time"

	"verif/internal/cbuild"
	"verif/internal/corpus"
	"verif/internal/drv"
	"verif/internal/vk"
	"verif/internal/wd"
)

// C10: compiled Wuffs code is hermetic.
//
// Every fact is an observation of a run: the per-package generated C of the
// working tree is compiled (no sanitizers) into one shared object per package,
// and c/hermetic_loader.c dlopen()s it and reports, from inside the running
// process, its program headers (dl_iterate_phdr), page protections
// (/proc/self/maps), dynamic symbol table (PT_DYNAMIC), allocator calls (the
// loader interposes the allocator) and — in seccomp strict mode — whether a
// decode makes any system call; wdrive (ASan build) memcmp's the receiver
// around every public pure call of seeded call histories.

func init() {
	Table["C10"] = Prop{Run: runC10}
}

// c10generated is the hook for generated (non-std) packages: the program
// generator is written separately. It receives the environment and must run
// the same legs (build one object per generated package, inspect, oracle)
// through env.inspectAndJudge.
var c10generated = func(e *cenv, env *c10env) {}

var c10soFlags = []string{"-O2", "-fPIC", "-shared", "-fno-stack-protector", "-fno-builtin", "-fvisibility=default", "-w"}
var c10ldFlags = []string{"-Wl,-z,relro,-z,now,--hash-style=both"}

// the exact allow-lists of clause (d) and (e)
var (
	c10memFuncs   = map[string]bool{"memcpy": true, "memmove": true, "memset": true, "memcmp": true}
	c10allocFuncs = map[string]bool{"calloc": true, "free": true}
	// undefined weak references every gcc/crt-built shared object carries
	// (crtbegin's deregister_tm_clones/register_tm_clones/__do_global_dtors_aux, crti's _init)
	c10crtWeak = map[string]bool{"__cxa_finalize": true, "__gmon_start__": true, "_ITM_deregisterTMCloneTable": true, "_ITM_registerTMCloneTable": true}
	// zero-sized NOTYPE boundary markers older linkers put into .dynsym
	c10linkerMarks = map[string]bool{"_edata": true, "__bss_start": true, "_end": true}
	// functions the crt may export from any shared object
	c10crtFuncs = map[string]bool{"_init": true, "_fini": true}
)

type c10pkgAPI struct {
	Name    string `json:"name"`
	Files   int    `json:"files"`
	Structs []struct {
		Name       string   `json:"name"`
		Pub        bool     `json:"pub"`
		Implements []string `json:"implements"`
	} `json:"structs"`
	Funcs []struct {
		Recv   string `json:"recv"`
		Name   string `json:"name"`
		Pub    bool   `json:"pub"`
		Effect string `json:"effect"`
		Choosy bool   `json:"choosy"`
	} `json:"funcs"`
	Uses []string `json:"uses"`
}

type c10env struct {
	dir    string // cache directory holding the objects and the loader
	loader string
	pkgs   []string            // std packages + "base"
	deps   map[string][]string // pkg -> transitive deps in load order (base first)
	api    map[string]*c10pkgAPI
	ctlNon int64                      // control object's writable non-RELRO bytes
	ctlMap int64                      // control object's bytes on pages the kernel maps writable
	defs   map[string]map[string]bool // pkg -> names it defines (dynamic symbol table, at run time)
}

type c10sym struct {
	Name     string `json:"name"`
	Bind     string `json:"bind"`
	Type     string `json:"type"`
	Size     int64  `json:"size"`
	Writable bool   `json:"writable"`
	Maps     string `json:"maps"`
}

type c10inspect struct {
	pkg       string
	loadErr   string
	lines     int
	tls       bool
	tlsSize   int64
	nonrelro  int64 // by program-header arithmetic
	mapsW     int64 // bytes of PT_LOADs on pages mapped writable (kernel's view)
	hash      string
	nseg      int
	undef     []c10sym
	def       []c10sym
	symCount  int64
	probes    []map[string]interface{}
	done      bool
	bindNow   bool
	hasRelro  bool
	rawOutput string
}

func c10run(wallSec int, bin string, args ...string) (out []byte, stderr string, ws syscall.WaitStatus, timedOut bool, err error) {
	cmd := exec.Command(bin, args...)
	var ob, eb bytes.Buffer
	cmd.Stdout = &ob
	cmd.Stderr = &eb
	cmd.Env = append(os.Environ(), "LD_BIND_NOW=1")
	if err = cmd.Start(); err != nil {
		return nil, "", 0, false, err
	}
	done := make(chan error, 1)
	go func() { done <- cmd.Wait() }()
	select {
	case err = <-done:
	case <-time.After(time.Duration(wallSec) * time.Second):
		timedOut = true
		cmd.Process.Kill()
		err = <-done
	}
	if cmd.ProcessState != nil {
		ws, _ = cmd.ProcessState.Sys().(syscall.WaitStatus)
	}
	return ob.Bytes(), eb.String(), ws, timedOut, err
}

func c10lines(b []byte) []map[string]interface{} {
	var out []map[string]interface{}
	sc := bufio.NewScanner(bytes.NewReader(b))
	sc.Buffer(make([]byte, 1<<20), 1<<26)
	for sc.Scan() {
		ln := sc.Bytes()
		if len(ln) == 0 || ln[0] != '{' {
			continue
		}
		var m map[string]interface{}
		if json.Unmarshal(ln, &m) == nil {
			out = append(out, m)
		}
	}
	return out
}

func (env *c10env) soPath(pkg string) string {
	if pkg == "control" {
		return filepath.Join(env.dir, "libcontrol.so")
	}
	return filepath.Join(env.dir, "libwuffs_"+pkg+".so")
}

// loadArgs returns target followed by its dependencies such that the loader
// (which loads from the last argument to the first) loads base first.
func (env *c10env) loadArgs(pkg string) []string {
	args := []string{env.soPath(pkg)}
	ds := env.deps[pkg]
	for i := len(ds) - 1; i >= 0; i-- {
		args = append(args, env.soPath(ds[i]))
	}
	return args
}

func (env *c10env) inspect(pkg string) (*c10inspect, error) {
	out, stderr, ws, timedOut, err := c10run(300, env.loader, append([]string{"inspect"}, env.loadArgs(pkg)...)...)
	ins := &c10inspect{pkg: pkg}
	if timedOut {
		return nil, fmt.Errorf("inspect %s: wall-clock watchdog", pkg)
	}
	for _, m := range c10lines(out) {
		ins.lines++
		switch wd.Str(m, "ev") {
		case "dlopen-failed":
			ins.loadErr = wd.Str(m, "err")
			if m["target"] != true {
				return nil, fmt.Errorf("inspect %s: a dependency failed to load: %s", pkg, ins.loadErr)
			}
		case "loader-error":
			return nil, fmt.Errorf("inspect %s: loader error: %s %s", pkg, wd.Str(m, "what"), wd.Str(m, "detail"))
		case "loaded":
			ins.bindNow = m["bind_now"] == true
			ins.hasRelro = m["relro"] == true
		case "segment":
			ins.nseg++
			ins.mapsW += wd.Num(m, "maps_writable_seg_bytes")
		case "writable":
			ins.nonrelro = wd.Num(m, "nonrelro_bytes")
			ins.hash = wd.Str(m, "hash")
			ins.tls = m["tls"] == true
			ins.tlsSize = wd.Num(m, "tls_memsz")
		case "undef", "def":
			s := c10sym{Name: wd.Str(m, "name"), Bind: wd.Str(m, "bind"), Type: wd.Str(m, "type"), Size: wd.Num(m, "size"),
				Writable: m["writable"] == true, Maps: wd.Str(m, "maps")}
			if wd.Str(m, "ev") == "undef" {
				ins.undef = append(ins.undef, s)
			} else {
				ins.def = append(ins.def, s)
			}
		case "symtab":
			ins.symCount = wd.Num(m, "count")
		case "alloc-probe":
			ins.probes = append(ins.probes, m)
		case "inspect-done":
			ins.done = true
		}
	}
	if ins.loadErr != "" {
		return ins, nil
	}
	if err != nil || !ins.done {
		return nil, fmt.Errorf("inspect %s: loader failed: %v signal=%v\n%s\n%s", pkg, err, ws.Signaled(), tailStr(string(out), 800), tailStr(stderr, 800))
	}
	if !ins.bindNow || !ins.hasRelro {
		return nil, fmt.Errorf("inspect %s: object was not linked -z relro -z now (bind_now=%v relro=%v)", pkg, ins.bindNow, ins.hasRelro)
	}
	return ins, nil
}

var reInclude = regexp.MustCompile(`(?m)^#include "\./wuffs-std-([a-z0-9_]+)\.c"`)

// c10build compiles (or finds cached) one shared object per package, the
// control object and the loader.
func c10build(r *drv.Run, std *cbuild.Std) (*c10env, error) {
	loaderSrc := filepath.Join(drv.VerifDir, "c", "hermetic_loader.c")
	lb, err := os.ReadFile(loaderSrc)
	if err != nil {
		return nil, err
	}
	fh := sha256.New()
	fh.Write(lb)
	fh.Write([]byte(strings.Join(c10soFlags, " ") + "|" + strings.Join(c10ldFlags, " ")))
	env := &c10env{dir: filepath.Join(std.Dir, "c10-so-"+hex.EncodeToString(fh.Sum(nil))[:10]), deps: map[string][]string{}}
	env.loader = filepath.Join(env.dir, "hermetic_loader")
	// packages = the per-package files `wuffs gen` wrote
	ents, err := os.ReadDir(std.GenDir)
	if err != nil {
		return nil, err
	}
	direct := map[string][]string{}
	for _, e := range ents {
		n := e.Name()
		if strings.HasPrefix(n, "wuffs-std-") && strings.HasSuffix(n, ".c") {
			p := strings.TrimSuffix(strings.TrimPrefix(n, "wuffs-std-"), ".c")
			env.pkgs = append(env.pkgs, p)
			b, err := os.ReadFile(filepath.Join(std.GenDir, n))
			if err != nil {
				return nil, err
			}
			head := b
			if i := bytes.Index(b, []byte("WUFFS MONOLITHIC RELEASE DISCARDS EVERYTHING ABOVE")); i > 0 {
				head = b[:i]
			}
			for _, m := range reInclude.FindAllSubmatch(head, -1) {
				direct[p] = append(direct[p], string(m[1]))
			}
		}
	}
	sort.Strings(env.pkgs)
	if len(env.pkgs) < 10 {
		return nil, fmt.Errorf("only %d per-package files in %s", len(env.pkgs), std.GenDir)
	}
	env.pkgs = append(env.pkgs, "base")
	var topo func(p string, seen map[string]bool, out *[]string)
	topo = func(p string, seen map[string]bool, out *[]string) {
		for _, d := range direct[p] {
			if !seen[d] {
				seen[d] = true
				topo(d, seen, out)
				*out = append(*out, d)
			}
		}
	}
	for _, p := range env.pkgs {
		if p == "base" {
			continue
		}
		out := []string{"base"}
		topo(p, map[string]bool{}, &out)
		env.deps[p] = out
	}
	os.MkdirAll(env.dir, 0o755)
	lf, err := os.OpenFile(filepath.Join(env.dir, "lock"), os.O_CREATE|os.O_RDWR, 0o644)
	if err != nil {
		return nil, err
	}
	defer lf.Close()
	if err := syscall.Flock(int(lf.Fd()), syscall.LOCK_EX); err != nil {
		return nil, err
	}
	defer syscall.Flock(int(lf.Fd()), syscall.LOCK_UN)
	if _, err := os.Stat(filepath.Join(env.dir, "ok")); err == nil {
		return env, nil
	}
	t0 := time.Now()
	type job struct {
		name string
		args []string
	}
	var jobs []job
	empty := filepath.Join(env.dir, "empty.c")
	os.WriteFile(empty, []byte("/* control object: an empty translation unit */\n"), 0o644)
	mk := func(out string, src string, impl bool) job {
		a := append([]string{}, c10soFlags...)
		if impl {
			a = append(a, "-DWUFFS_IMPLEMENTATION")
		}
		a = append(a, "-o", out, src)
		a = append(a, c10ldFlags...)
		return job{out, a}
	}
	// biggest first
	for _, p := range []string{"base", "jpeg", "png", "webp", "vp8", "gif", "lzma"} {
		for _, q := range env.pkgs {
			if p == q {
				src := filepath.Join(std.GenDir, "wuffs-std-"+p+".c")
				if p == "base" {
					src = filepath.Join(std.GenDir, "wuffs-base.c")
				}
				jobs = append(jobs, mk(env.soPath(p), src, true))
			}
		}
	}
	have := map[string]bool{}
	for _, j := range jobs {
		have[j.name] = true
	}
	for _, p := range env.pkgs {
		if !have[env.soPath(p)] {
			jobs = append(jobs, mk(env.soPath(p), filepath.Join(std.GenDir, "wuffs-std-"+p+".c"), true))
		}
	}
	jobs = append(jobs, mk(env.soPath("control"), empty, false))
	jobs = append(jobs, job{env.loader, []string{"-O1", "-w", "-DWUFFS_C_PATH=\"" + std.ReleaseC + "\"", "-o", env.loader, loaderSrc, "-ldl", "-Wl,-z,now"}})
	var wg sync.WaitGroup
	sem := make(chan struct{}, 16)
	errs := make(chan error, len(jobs))
	for _, j := range jobs {
		wg.Add(1)
		go func(j job) {
			defer wg.Done()
			sem <- struct{}{}
			defer func() { <-sem }()
			cmd := exec.Command("gcc", j.args...)
			if o, err := cmd.CombinedOutput(); err != nil {
				errs <- fmt.Errorf("gcc %s: %v\n%s", strings.Join(j.args, " "), err, tailStr(string(o), 3000))
			}
		}(j)
	}
	wg.Wait()
	close(errs)
	for e := range errs {
		return nil, e
	}
	drv.Logf("built %d shared objects + loader in %.1fs", len(jobs)-1, time.Since(t0).Seconds())
	return env, os.WriteFile(filepath.Join(env.dir, "ok"), []byte("ok"), 0o644)
}

// allowedFuncs derives, from the parsed SOURCES, the function names a package
// object may export.
func c10allowedFuncs(pkg string, api *c10pkgAPI) map[string]string {
	al := map[string]string{}
	pfx := "wuffs_" + pkg + "__"
	for _, s := range api.Structs {
		if !s.Pub {
			continue
		}
		al[pfx+s.Name+"__initialize"] = "initialize"
		al[pfx+s.Name+"__alloc"] = "alloc"
		al["sizeof__"+pfx+s.Name] = "sizeof"
		for _, im := range s.Implements {
			i := "wuffs_" + strings.Replace(im, ".", "__", 1)
			al[pfx+s.Name+"__alloc_as__"+i] = "alloc_as"
			al[pfx+s.Name+"__upcast_as__"+i] = "upcast_as"
		}
	}
	for _, f := range api.Funcs {
		if !f.Pub {
			continue
		}
		// the property allows "the methods declared pub"
		if f.Recv != "" {
			al[pfx+f.Recv+"__"+f.Name] = "pub method"
		} else {
			al[pfx+f.Name] = "pub func"
		}
	}
	return al
}

// judge applies clauses (b) (allocator probe), (c), (d), (e) to one inspected object.
func (env *c10env) judge(e *cenv, ins *c10inspect, exemptE bool) {
	pkg := ins.pkg
	if ins.loadErr != "" {
		// under -z now a failed load means an import nobody provides
		name := ins.loadErr
		if i := strings.Index(name, "undefined symbol: "); i >= 0 {
			name = strings.TrimSpace(name[i+len("undefined symbol: "):])
		}
		e.viol("unbound-import:"+pkg+":"+name, fmt.Sprintf("libwuffs_%s.so cannot be loaded with its dependencies and libc: %s", pkg, ins.loadErr),
			map[string]interface{}{"package": pkg, "dlerror": ins.loadErr, "load_order": env.loadArgs(pkg)})
		return
	}
	e.eval(1)
	// (c) segments
	e.count("segments_inspected", int64(ins.nseg))
	e.class(pkg + "|segments")
	if ins.nonrelro > env.ctlNon || ins.mapsW > env.ctlMap {
		var wobj []string
		for _, s := range ins.def {
			if s.Writable {
				wobj = append(wobj, s.Name)
			}
		}
		e.viol("writable-data:"+pkg, fmt.Sprintf("loaded libwuffs_%s.so has %d writable non-RELRO PT_LOAD bytes (%d bytes on pages the kernel maps writable); the control object built the same way from an empty file has %d (%d)",
			pkg, ins.nonrelro, ins.mapsW, env.ctlNon, env.ctlMap),
			map[string]interface{}{"package": pkg, "nonrelro_bytes": ins.nonrelro, "maps_writable_bytes": ins.mapsW, "control_nonrelro_bytes": env.ctlNon,
				"control_maps_writable_bytes": env.ctlMap, "exported_writable_objects": wobj, "flags": c10soFlags, "ldflags": c10ldFlags})
	}
	if ins.tls {
		e.viol("thread-local-data:"+pkg, fmt.Sprintf("loaded libwuffs_%s.so has a PT_TLS segment of %d bytes", pkg, ins.tlsSize), map[string]interface{}{"package": pkg, "tls_memsz": ins.tlsSize})
	}
	// (d) undefined symbols
	e.count("symbols_enumerated", ins.symCount)
	importsAlloc := false
	for _, s := range ins.undef {
		e.count("undefined_symbols_classified", 1)
		switch {
		case c10memFuncs[s.Name]:
			e.count("undef_mem", 1)
		case c10allocFuncs[s.Name]:
			importsAlloc = true
			e.count("undef_alloc", 1)
		case c10crtWeak[s.Name] && s.Bind == "weak":
			e.count("undef_crt_weak", 1)
		case strings.HasPrefix(s.Name, "wuffs_") && env.definedElsewhere(pkg, s.Name):
			e.count("undef_wuffs_other_package", 1)
		default:
			e.viol("undefined-symbol:"+pkg+":"+s.Name, fmt.Sprintf("loaded libwuffs_%s.so imports %q (%s %s), which is neither memcpy/memmove/memset/memcmp, calloc/free, a wuffs_* symbol defined by another package object, nor a weak crt symbol",
				pkg, s.Name, s.Bind, s.Type), map[string]interface{}{"package": pkg, "symbol": s.Name, "bind": s.Bind, "type": s.Type})
		}
	}
	if len(ins.undef) > 0 {
		e.class(pkg + "|undefined-symbols")
	}
	// (b) allocator probe: who calls the allocator?
	allocFns := 0
	for _, p := range ins.probes {
		allocFns++
		e.count("alloc_probes", 1)
		evs, _ := p["events"].([]interface{})
		if len(evs) > 0 {
			e.class(pkg + "|alloc-probe")
		}
		for _, ev := range evs {
			m, _ := ev.(map[string]interface{})
			e.count("allocator_calls_attributed", 1)
			caller := wd.Str(m, "caller")
			if !strings.HasPrefix(caller, "wuffs_") || !strings.Contains(caller, "__alloc") {
				if caller == "" {
					caller = "unexported-function"
				}
				e.viol("allocator-call-outside-alloc:"+pkg+":"+caller, fmt.Sprintf("while %s ran, %s was called from %s (object %s, offset %d), which is not an alloc convenience function",
					wd.Str(p, "fn"), wd.Str(m, "fn"), caller, wd.Str(m, "obj"), wd.Num(m, "obj_off")), map[string]interface{}{"package": pkg, "probe": p})
			}
		}
	}
	if importsAlloc && allocFns == 0 {
		e.viol("allocator-import-without-alloc-function:"+pkg, fmt.Sprintf("loaded libwuffs_%s.so imports calloc/free but exports no *__alloc convenience function they could be called from", pkg),
			map[string]interface{}{"package": pkg})
	}
	// (e) exported symbols
	var allowed map[string]string
	if !exemptE {
		api := env.api[pkg]
		if api == nil {
			e.r.Inconclusive("no parsed sources for package " + pkg)
			return
		}
		allowed = c10allowedFuncs(pkg, api)
	}
	var extra, wobjs []string
	nf, no := 0, 0
	for _, s := range ins.def {
		switch s.Type {
		case "func", "ifunc":
			nf++
			if exemptE || c10crtFuncs[s.Name] {
				continue
			}
			if _, ok := allowed[s.Name]; !ok {
				extra = append(extra, s.Name)
			}
		case "tls":
			e.viol("thread-local-data:"+pkg, fmt.Sprintf("loaded libwuffs_%s.so exports the thread-local symbol %s", pkg, s.Name), map[string]interface{}{"package": pkg, "symbol": s})
		default: // object, common, notype
			if s.Type == "notype" && s.Size == 0 && c10linkerMarks[s.Name] {
				continue // segment boundary markers some linkers export; not data
			}
			no++
			if s.Writable || s.Maps == "w" {
				wobjs = append(wobjs, s.Name)
			}
		}
	}
	e.count("exported_functions_checked", int64(nf))
	e.count("exported_objects_checked", int64(no))
	if nf > 0 {
		e.class(pkg + "|exported-functions")
	}
	if no > 0 {
		e.class(pkg + "|exported-objects")
	}
	if len(extra) > 0 {
		sort.Strings(extra)
		show := extra
		if len(show) > 8 {
			show = show[:8]
		}
		e.viol("exported-nonpub-function:"+pkg, fmt.Sprintf("loaded libwuffs_%s.so exports %d function(s) that are not pub methods or initialize/alloc/sizeof/upcast helpers of the package's sources, e.g. %s",
			pkg, len(extra), strings.Join(show, ", ")), map[string]interface{}{"package": pkg, "functions": extra})
	}
	if len(wobjs) > 0 {
		sort.Strings(wobjs)
		e.viol("exported-writable-object:"+pkg, fmt.Sprintf("loaded libwuffs_%s.so exports data object(s) on writable non-RELRO pages: %s", pkg, strings.Join(wobjs, ", ")),
			map[string]interface{}{"package": pkg, "objects": wobjs})
	}
}

func (env *c10env) definedElsewhere(pkg, name string) bool {
	for p, d := range env.defs {
		if p != pkg && d[name] {
			return true
		}
	}
	return false
}

// inspectAndJudge runs legs (b)-(e) over a list of packages of env.
func (env *c10env) inspectAndJudge(e *cenv, pkgs []string, exempt map[string]bool) {
	res := make([]*c10inspect, len(pkgs))
	var wg sync.WaitGroup
	sem := make(chan struct{}, 16)
	for i, p := range pkgs {
		wg.Add(1)
		go func(i int, p string) {
			defer wg.Done()
			sem <- struct{}{}
			defer func() { <-sem }()
			ins, err := env.inspect(p)
			if err != nil {
				e.r.Inconclusive(err.Error())
				return
			}
			res[i] = ins
		}(i, p)
	}
	wg.Wait()
	// the union of what the objects define, as enumerated at run time
	for _, ins := range res {
		if ins == nil {
			continue
		}
		d := map[string]bool{}
		for _, s := range ins.def {
			d[s.Name] = true
		}
		env.defs[ins.pkg] = d
	}
	for _, ins := range res {
		if ins != nil {
			env.judge(e, ins, exempt[ins.pkg])
		}
	}
	for _, ins := range res {
		if ins != nil && ins.pkg == "gzip" {
			e.sample(map[string]interface{}{"leg": "inspect", "package": ins.pkg, "nonrelro_bytes": ins.nonrelro, "maps_writable_bytes": ins.mapsW, "control": env.ctlNon,
				"tls": ins.tls, "undefined": symNames(ins.undef), "defined": symNames(ins.def), "alloc_probes": ins.probes})
		}
	}
}

func symNames(ss []c10sym) []string {
	var out []string
	for _, s := range ss {
		out = append(out, s.Name+"/"+s.Bind+"/"+s.Type)
	}
	sort.Strings(out)
	return out
}

// decode leg -------------------------------------------------------------

type c10decJob struct {
	pkg, st, iface string
	pure           []string
	item           *corpus.Item
}

func (env *c10env) decodeJobs(e *cenv) []c10decJob {
	r := e.r
	perKind := 5
	maxFile := int64(64 << 10)
	nGen := 40
	if r.Thorough() {
		perKind = 60
		maxFile = 256 << 10
		nGen = 400
	}
	byKind := map[string][]*corpus.Item{}
	var all []*corpus.Item
	files := corpus.TestData(drv.RepoDir, maxFile)
	rr := vk.CaseRNG(r.Seed, 0, "c10files", 0)
	rr.Shuffle(len(files), func(i, j int) { files[i], files[j] = files[j], files[i] })
	for _, it := range files {
		if len(byKind[it.Kind]) < perKind {
			byKind[it.Kind] = append(byKind[it.Kind], it)
			all = append(all, it)
		}
	}
	var gen []*corpus.Item
	for _, it := range c07corpus(r, nGen) {
		if len(it.Enc) <= int(maxFile) && len(byKind[it.Kind]) < perKind+perKind/2+2 {
			byKind[it.Kind] = append(byKind[it.Kind], it)
			gen = append(gen, it)
			all = append(all, it)
		}
	}
	if err := corpus.WriteItems(filepath.Join(r.Scratch, "c10in"), gen, "g"); err != nil {
		drv.Fatal("%v", err)
	}
	var jobs []c10decJob
	ifaces := map[string]bool{"base.io_transformer": true, "base.image_decoder": true, "base.token_decoder": true,
		"base.hasher_u32": true, "base.hasher_u64": true, "base.hasher_bitvec256": true}
	for _, pkg := range env.pkgs {
		api := env.api[pkg]
		if api == nil {
			continue
		}
		for _, s := range api.Structs {
			if !s.Pub {
				continue
			}
			ifc := ""
			for _, im := range s.Implements {
				if ifaces[im] {
					ifc = strings.TrimPrefix(im, "base.")
				}
			}
			if ifc == "" {
				continue
			}
			var pure []string
			for _, f := range api.Funcs {
				if f.Pub && f.Effect == "pure" && f.Recv == s.Name {
					pure = append(pure, f.Name)
				}
			}
			sort.Strings(pure)
			its := byKind[pkg]
			if strings.HasPrefix(ifc, "hasher") {
				// any bytes will do; take a seeded selection
				hr := vk.CaseRNG(r.Seed, 0, "c10hash-"+pkg, 0)
				its = nil
				for i := 0; i < perKind+1 && len(all) > 0; i++ {
					its = append(its, all[hr.Intn(len(all))])
				}
			}
			for _, it := range its {
				jobs = append(jobs, c10decJob{pkg: pkg, st: s.Name, iface: ifc, pure: pure, item: it})
			}
		}
	}
	return jobs
}

func (env *c10env) runDecodes(e *cenv) {
	jobs := env.decodeJobs(e)
	var wg sync.WaitGroup
	sem := make(chan struct{}, 16)
	covered := map[string]bool{}
	var mu sync.Mutex
	for i, j := range jobs {
		wg.Add(1)
		go func(i int, j c10decJob) {
			defer wg.Done()
			sem <- struct{}{}
			defer func() { <-sem }()
			pl := "-"
			if len(j.pure) > 0 {
				pl = strings.Join(j.pure, ",")
			}
			args := append([]string{"decode", j.iface, j.pkg, j.st, pl, j.item.Path}, env.loadArgs(j.pkg)...)
			out, stderr, ws, timedOut, err := c10run(600, env.loader, args...)
			desc := map[string]interface{}{"package": j.pkg, "struct": j.st, "interface": j.iface, "input": itemDesc(j.item),
				"command": append([]string{env.loader}, args...)}
			if len(j.item.Enc) <= 1<<15 {
				desc["enc_hex"] = hex.EncodeToString(j.item.Enc)
			}
			if timedOut {
				e.r.Inconclusive(fmt.Sprintf("decode leg %s %s: wall-clock watchdog", j.pkg, j.item.Name))
				return
			}
			lines := c10lines(out)
			var start, done map[string]interface{}
			for _, m := range lines {
				switch wd.Str(m, "ev") {
				case "decode-start":
					start = m
				case "decode-done":
					done = m
				case "loader-error", "dlopen-failed":
					e.r.Inconclusive(fmt.Sprintf("decode leg %s: %v", j.pkg, m))
					return
				}
			}
			if start != nil && done == nil && ws.Signaled() && ws.Signal() == syscall.SIGKILL {
				// the only SIGKILL source here besides our own watchdog (excluded above)
				// is the kernel's seccomp strict mode
				e.viol("syscall-during-decode:"+j.pkg, fmt.Sprintf("decoding %s with %s.%s inside SECCOMP_MODE_STRICT: the process was killed (SIGKILL) after entering strict mode, i.e. the library made a system call other than read/write/exit/sigreturn",
					j.item.Name, j.pkg, j.st), desc)
				return
			}
			if err != nil || done == nil {
				e.r.Inconclusive(fmt.Sprintf("decode leg %s %s: loader failed: %v\n%s\n%s", j.pkg, j.item.Name, err, tailStr(string(out), 600), tailStr(stderr, 600)))
				return
			}
			e.eval(1)
			e.count("decodes_under_seccomp", 1)
			e.count("decode_calls_under_seccomp", wd.Num(done, "calls"))
			if wd.Num(done, "calls") > 1 {
				e.class(j.pkg + "|seccomp-decode")
			}
			if n := wd.Num(done, "alloc_calls"); n > 0 {
				caller := "?"
				if evs, _ := done["alloc_events"].([]interface{}); len(evs) > 0 {
					if m, _ := evs[0].(map[string]interface{}); m != nil {
						caller = wd.Str(m, "fn") + "@" + wd.Str(m, "caller")
					}
				}
				d := copyMap(desc)
				d["result"] = done
				e.viol("alloc-during-decode:"+j.pkg+":"+caller, fmt.Sprintf("%d allocator call(s) were made while %s.%s decoded %s (first: %s)", n, j.pkg, j.st, j.item.Name, caller), d)
			}
			segs, _ := done["segments"].([]interface{})
			for _, s := range segs {
				m, _ := s.(map[string]interface{})
				obj := strings.TrimSuffix(strings.TrimPrefix(wd.Str(m, "obj"), "libwuffs_"), ".so")
				e.count("segment_rehashes", 1)
				e.class(obj + "|segment-rehash")
				if wd.Str(m, "before") != wd.Str(m, "after") {
					d := copyMap(desc)
					d["result"] = done
					e.viol("writable-data-changed:"+obj, fmt.Sprintf("the %d writable non-RELRO bytes of loaded libwuffs_%s.so hash differently before (%s) and after (%s) %s.%s decoded %s",
						wd.Num(m, "nonrelro_bytes"), obj, wd.Str(m, "before"), wd.Str(m, "after"), j.pkg, j.st, j.item.Name), d)
				}
			}
			ps, _ := done["pure"].([]interface{})
			for _, p := range ps {
				m, _ := p.(map[string]interface{})
				n := wd.Num(m, "calls")
				e.count("pure_calls_compared_loader", n)
				if n > 0 {
					e.class(j.pkg + "|pure-call-memcmp-loader")
				}
				if wd.Num(m, "changed_obj") > 0 || wd.Num(m, "changed_buf") > 0 {
					d := copyMap(desc)
					d["result"] = done
					what := "the receiver's bytes"
					if wd.Num(m, "changed_obj") == 0 {
						what = "a source/destination/work buffer"
					}
					e.viol("pure-method-wrote:"+j.pkg+":"+wd.Str(m, "name"), fmt.Sprintf("%s.%s.%s is declared pure but changed %s (%d of %d calls) while decoding %s", j.pkg, j.st, wd.Str(m, "name"), what,
						wd.Num(m, "changed_obj")+wd.Num(m, "changed_buf"), n, j.item.Name), d)
				}
			}
			if u := wd.Str(done, "pure_unknown"); u != "" {
				mu.Lock()
				covered["pure methods the loader has no signature for: "+j.pkg+": "+u] = true
				mu.Unlock()
			}
			if i%37 == 0 {
				e.sample(map[string]interface{}{"leg": "seccomp-decode", "package": j.pkg, "input": j.item.Name, "result": done})
			}
		}(i, j)
	}
	wg.Wait()
	var notes []string
	for k := range covered {
		notes = append(notes, k)
	}
	sort.Strings(notes)
	if len(notes) > 0 {
		e.r.Extra["uncovered"] = notes
	}
	// packages with a decode leg
	seen := map[string]bool{}
	for _, j := range jobs {
		seen[j.pkg] = true
	}
	var none []string
	for _, p := range env.pkgs {
		if !seen[p] {
			none = append(none, p)
		}
	}
	e.r.Extra["packages_without_direct_seccomp_decode"] = none
}

// pure leg ------------------------------------------------------------------

func c10pureLeg(e *cenv) {
	r := e.r
	n := 1000
	if r.Thorough() {
		n = 20000
	}
	jobs, err := histJobs(r, "c10", n, r.Scratch+"/c10h")
	if err != nil {
		drv.Fatal("%v", err)
	}
	res := e.run("asan", jobs, "c10h", 3000)
	for _, rs := range res {
		if rs == nil || rs.NotRun {
			continue
		}
		h := rs.Job.Tag.(*histCase)
		desc := map[string]interface{}{"kind": h.kind, "input": itemDesc(h.input), "script": rs.Job.Text}
		if len(h.input.Enc) <= 1<<15 {
			desc["enc_hex"] = hex.EncodeToString(h.input.Enc)
		}
		// crashes and protocol/buffer monitors belong to C03/C08; only pure calls are judged here
		e.eval(1)
		for _, o := range rs.Objs {
			if o["pure"] != true {
				continue
			}
			call := wd.Str(o, "call")
			e.count("pure_calls_compared_wdrive", 1)
			e.class(h.kind + "|pure-call-memcmp-wdrive")
			if o["obj_changed"] == true {
				d := copyMap(desc)
				d["observed"] = o
				e.viol("pure-method-wrote:"+h.kind+":"+call, fmt.Sprintf("%s: the pure call %s changed the receiver's bytes (step %d of the history)", h.kind, call, wd.Num(o, "step")), d)
			}
		}
		if rs.Idx%499 == 0 {
			e.sample(map[string]interface{}{"leg": "pure-wdrive", "kind": h.kind, "script": strings.Split(strings.TrimSpace(rs.Job.Text), "\n")})
		}
	}
}

func runC10(r *drv.Run) drv.Spec {
	sp := drv.Spec{
		Level: "exploration",
		Rule: "cases = every std package (+ base): its per-package generated C compiled alone into libwuffs_<pkg>.so (-O2 -fPIC -fno-stack-protector -fno-builtin, -z relro -z now), dlopen'ed with its dependencies; legs: loaded segments vs a control object, every dynamic symbol classified, every exported *__alloc called under an interposed allocator, decodes of test/data + reference-encoder inputs inside SECCOMP_MODE_STRICT with segment re-hash and memcmp of receiver+buffers around every public pure method after every coroutine call, and seeded C08-style call histories on the ASan wdrive with memcmp of the receiver around every pure call; " +
			"distinct = (package, monitor kind) pairs that observed >= 1 event; monitor kinds: segments, undefined-symbols, exported-functions, exported-objects, alloc-probe, seccomp-decode, segment-rehash, pure-call-memcmp-loader, pure-call-memcmp-wdrive",
		Assumptions: []string{
			"objects are built with gcc -O2 -fPIC -shared -fno-stack-protector -fno-builtin -fvisibility=default -Wl,-z,relro,-z,now,--hash-style=both; another compiler/flag set may add imports of its own",
			"allowed undefined symbols, exactly: memcpy memmove memset memcmp; calloc free; wuffs_* names that another package object defines in its run-time dynamic symbol table; weak crt references __cxa_finalize __gmon_start__ _ITM_deregisterTMCloneTable _ITM_registerTMCloneTable",
			"allowed exported functions, exactly: wuffs_<pkg>__<recv>__<name> for every func declared pub in the parsed sources, and for every pub struct S: wuffs_<pkg>__S__initialize, wuffs_<pkg>__S__alloc, sizeof__wuffs_<pkg>__S, wuffs_<pkg>__S__alloc_as__wuffs_base__<iface>, wuffs_<pkg>__S__upcast_as__wuffs_base__<iface>; crt _init/_fini; base (hand-written C) is exempt from the export clause only",
			"calloc/free 'solely from the alloc functions' is observed by calling every exported *__alloc under an interposed allocator that records return addresses, and by counting allocator calls during decodes (must be 0); an allocator call on a path no workload reaches is not seen",
			"seccomp strict mode permits read/write/exit/sigreturn: a library that wrote to an already open descriptor would not be killed (it would still show up as an undefined symbol); vDSO calls (time, clock_gettime) are not system calls and are likewise caught only by the symbol leg",
			"writable data = bytes of writable PT_LOADs outside the page-rounded PT_GNU_RELRO range, compared with a control object built from an empty file with the same flags, cross-checked against /proc/self/maps page protections; the control's 16 bytes are __dso_handle (8) and crtbegin's 1-byte completed flag padded to 8, so static data of <= 7 bytes with alignment <= 4 can hide in that padding from the size comparison and is then seen only by the before/after hash when a workload writes it",
			"the seccomp decode leg covers every std struct implementing io_transformer, image_decoder, token_decoder or hasher_* for which the corpus has inputs; packages without inputs (see packages_without_direct_seccomp_decode) are exercised only as dependencies; generated (non-std) packages are not yet covered (hook c10generated)",
		},
		MinEvals: 200, MinClasses: 150,
	}
	std, err := cbuild.GenStd(r, "plain", "", nil)
	if err != nil {
		drv.Fatal("generating std from the working tree: %v", err)
	}
	e := &cenv{r: r, std: std, bins: map[string]string{}}
	var wg sync.WaitGroup
	var env *c10env
	var errSo, errWd, errApi error
	var apiOut []byte
	wg.Add(3)
	go func() {
		defer wg.Done()
		env, errSo = c10build(r, std)
	}()
	go func() {
		defer wg.Done()
		b, err := cbuild.BuildWdrive(r, std, cbuild.VAsan)
		errWd = err
		e.mu.Lock()
		e.bins["asan"] = b
		e.mu.Unlock()
	}()
	go func() {
		defer wg.Done()
		bin, err := r.BuildGo("./cmd/pubapi", "pubapi", drv.BuildOpts{})
		if err != nil {
			errApi = err
			return
		}
		ents, _ := os.ReadDir(filepath.Join(drv.RepoDir, "std"))
		var dirs []string
		for _, en := range ents {
			if en.IsDir() {
				d := filepath.Join(drv.RepoDir, "std", en.Name())
				if ms, _ := filepath.Glob(filepath.Join(d, "*.wuffs")); len(ms) > 0 {
					dirs = append(dirs, d)
				}
			}
		}
		cmd := exec.Command(bin, dirs...)
		var eb bytes.Buffer
		cmd.Stderr = &eb
		apiOut, err = cmd.Output()
		if err != nil {
			errApi = fmt.Errorf("pubapi: %v: %s", err, tailStr(eb.String(), 1500))
		}
	}()
	wg.Wait()
	for _, err := range []error{errSo, errWd, errApi} {
		if err != nil {
			// a tree whose generated C no longer compiles / whose sources no longer parse cannot be monitored
			drv.Fatal("C10 build: %v", err)
		}
	}
	env.api = map[string]*c10pkgAPI{}
	if err := json.Unmarshal(apiOut, &env.api); err != nil {
		drv.Fatal("pubapi output: %v", err)
	}
	env.defs = map[string]map[string]bool{}

	// control object
	ctl, err := env.inspect("control")
	if err != nil {
		drv.Fatal("control object: %v", err)
	}
	if ctl.loadErr != "" {
		drv.Fatal("control object does not load: %s", ctl.loadErr)
	}
	env.ctlNon, env.ctlMap = ctl.nonrelro, ctl.mapsW
	r.Extra["control_object"] = map[string]interface{}{"nonrelro_bytes": ctl.nonrelro, "maps_writable_bytes": ctl.mapsW, "undefined": symNames(ctl.undef), "tls": ctl.tls}
	if ctl.tls || ctl.nonrelro > 64 {
		drv.Fatal("implausible control object: tls=%v nonrelro=%d", ctl.tls, ctl.nonrelro)
	}

	drv.Logf("C10: builds ready at %.1fs", time.Since(r.Start).Seconds())
	// VERIF_C10_LEGS (development aid) restricts the run to some legs; a
	// restricted run that sees no violation ends inconclusive (thresholds).
	leg := func(name string) bool {
		v := os.Getenv("VERIF_C10_LEGS")
		return v == "" || strings.Contains(","+v+",", ","+name+",")
	}
	var pureWg sync.WaitGroup
	if leg("pure") {
		pureWg.Add(1)
		go func() {
			defer pureWg.Done()
			t0 := time.Now()
			c10pureLeg(e)
			drv.Logf("C10: pure-call leg (wdrive) took %.1fs", time.Since(t0).Seconds())
		}()
	}
	if leg("inspect") {
		t0 := time.Now()
		env.inspectAndJudge(e, env.pkgs, map[string]bool{"base": true})
		drv.Logf("C10: inspect leg took %.1fs", time.Since(t0).Seconds())
	}
	if leg("decode") {
		t0 := time.Now()
		env.runDecodes(e)
		drv.Logf("C10: seccomp decode leg took %.1fs", time.Since(t0).Seconds())
	}
	c10generated(e, env)
	pureWg.Wait()
	r.Extra["packages"] = len(env.pkgs)
	// generated programs: purity of every unmarked method the real checker
	// accepts, incl. the near-miss family that tries every route to a store or
	// an impure call from a pure method
	runProgs(r, "c10")
	return sp
}
