package props

import (
	"encoding/hex"
	"fmt"
	"math/rand"
	"strings"

	"verif/internal/cbuild"
	"verif/internal/corpus"
	"verif/internal/drv"
	"verif/internal/vk"
	"verif/internal/wd"
)

// C08: generated objects enforce their call protocol and the I/O buffer contract.

func init() {
	Table["C08"] = Prop{Run: runC08}
}

const (
	stInitNotCalled = "#base: initialize not called"
	stDisabled      = "#base: disabled by previous error"
	stBadSeq        = "#base: bad call sequence"
	stBadSizeof     = "#base: bad sizeof receiver"
	stBadVersion    = "#base: bad wuffs version"
	stInterleaved   = "#base: interleaved coroutine calls"
	stBadArg        = "#base: bad argument"
)

// histStep is one scripted step plus what the model expects of it.
type histStep struct {
	line string
	// expectation, filled by the model while generating
	call    string   // "" for set-up steps
	expect  []string // allowed statuses; nil = unconstrained
	why     string
	isCoro  bool
	isInit  bool
	goodIni bool
}

type histCase struct {
	kind  string
	steps []histStep
	input *corpus.Item
}

func ifaceOf(k string) string {
	switch {
	case isHasher(k):
		return "hash"
	case isImage(k):
		return "img"
	case isToken(k):
		return "tok"
	}
	return "iot"
}

// genHistory builds a seeded history and, alongside, the model's expectation
// for each call given only what the property states.
func genHistory(rr *rand.Rand, kind string, in *corpus.Item, maxLen int) *histCase {
	h := &histCase{kind: kind, input: in}
	ifc := ifaceOf(kind)
	add := func(s histStep) { h.steps = append(h.steps, s) }
	// model state
	state := "U"      // U uninitialised, OK, DIS, UNK (after a non-coroutine error: resynchronised from the observed magic)
	active := ""      // suspended coroutine ("" none, "?" unknown)
	imgSeq := "fresh" // fresh | configured | other
	zeroMem := false
	newObj := func() {
		pf := []string{"00", "ff", "a5", "r3"}[rr.Intn(4)]
		zeroMem = pf == "00"
		add(histStep{line: fmt.Sprintf("op=new kind=%s prefill=%s wb=%d", kind, pf, []int{0, 1 << 16, 9000000}[rr.Intn(3)])})
		state, active, imgSeq = "U", "", "fresh"
	}
	setSrc := func() {
		switch rr.Intn(8) {
		case 0:
			add(histStep{line: "op=src null=1"})
		case 1:
			g := make([]byte, rr.Intn(40))
			rr.Read(g)
			add(histStep{line: fmt.Sprintf("op=src hex=%s closed=%d", hex.EncodeToString(g), rr.Intn(2))})
		default:
			wi := len(in.Enc)
			closed := 1
			if rr.Intn(2) == 0 && wi > 0 {
				wi = rr.Intn(wi + 1)
				closed = 0
			}
			add(histStep{line: fmt.Sprintf("op=src in=%s wi=%d closed=%d", in.Path, wi, closed)})
		}
	}
	setDst := func() {
		switch rr.Intn(8) {
		case 0:
			add(histStep{line: "op=dst null=1"})
		case 1:
			add(histStep{line: fmt.Sprintf("op=dst cap=%d fill=ff", rr.Intn(8))})
		default:
			add(histStep{line: fmt.Sprintf("op=dst cap=%d fill=%s", []int{64, 4096, 100000, 1 << 20}[rr.Intn(4)], []string{"00", "a5"}[rr.Intn(2)])})
		}
	}
	doInit := func(good bool) {
		s := histStep{call: "initialize", isInit: true}
		if good {
			opts := []int{0, 2}[rr.Intn(2)]
			if zeroMem && state == "U" && rr.Intn(2) == 0 {
				opts = 1
			}
			s.line = fmt.Sprintf("op=init opts=%d", opts)
			s.expect = []string{""}
			s.goodIni = true
			s.why = "initialize with the right size and version must succeed"
			state, active, imgSeq = "OK", "", "fresh"
			zeroMem = false
		} else {
			switch rr.Intn(4) {
			case 0:
				s.line = fmt.Sprintf("op=init dsize=%d", []int{-1, 1, -8, 8, 64}[rr.Intn(5)])
				s.expect = []string{stBadSizeof}
				s.why = "initialize must reject a wrong sizeof"
			case 1:
				s.line = "op=init ver=major+1"
				s.expect = []string{stBadVersion}
				s.why = "initialize must reject another major version"
			case 2:
				s.line = "op=init ver=minor+1"
				s.expect = []string{stBadVersion}
				s.why = "initialize must reject a too-new minor version"
			default:
				s.line = fmt.Sprintf("op=init dsize=%d ver=major+1", 1+rr.Intn(9))
				s.expect = []string{stBadSizeof, stBadVersion}
				s.why = "initialize must reject a wrong sizeof / version"
			}
		}
		add(s)
	}
	coros := map[string][]string{
		"iot": {"transform_io"},
		"img": {"decode_image_config", "decode_frame_config", "decode_frame", "tell_me_more"},
		"tok": {"decode_tokens"},
	}[ifc]
	others := map[string][]string{
		"iot":  {"set_quirk", "get_quirk", "workbuf_len", "history_len"},
		"img":  {"set_quirk", "get_quirk", "workbuf_len", "img_getters", "restart_frame", "set_report_metadata"},
		"tok":  {"set_quirk", "get_quirk", "workbuf_len"},
		"hash": {"set_quirk", "get_quirk", "checksum", "update"},
	}[ifc]
	srcNull, dstNull := false, false
	_ = dstNull
	newObj()
	setSrc()
	setDst()
	n := 4 + rr.Intn(maxLen-4)
	if rr.Intn(4) != 0 {
		// most histories initialise early
		if rr.Intn(6) == 0 {
			doInit(false)
		}
		doInit(true)
	}
	for i := 0; i < n; i++ {
		switch p := rr.Intn(100); {
		case p < 6:
			doInit(rr.Intn(3) != 0)
		case p < 9:
			newObj()
		case p < 18:
			setSrc()
		case p < 24:
			setDst()
		case p < 30:
			add(histStep{line: fmt.Sprintf("op=srcmeta wi=%d closed=%d", rr.Intn(len(in.Enc)+1), rr.Intn(2))})
		case p < 36:
			add(histStep{line: "op=drain" + []string{"", " compact=1"}[rr.Intn(2)]})
		default:
			var name string
			coro := len(coros) > 0 && rr.Intn(100) < 70
			if coro {
				name = coros[rr.Intn(len(coros))]
				// stay on the suspended coroutine most of the time
				if active != "" && active != "?" && rr.Intn(4) != 0 {
					name = active
				}
			} else {
				name = others[rr.Intn(len(others))]
			}
			s := histStep{call: name, isCoro: coro}
			s.line = "op=call call=" + name
			switch name {
			case "set_quirk":
				s.line += fmt.Sprintf(" key=%d val=%d", []uint32{0, 1, 2, 1290294272, 1290294273, 1310749696, 1041635328, 1041635329}[rr.Intn(8)], rr.Intn(3))
			case "get_quirk":
				s.line += fmt.Sprintf(" key=%d", []uint32{0, 1, 2, 1290294272, 1310749696}[rr.Intn(5)])
			case "restart_frame":
				s.line += fmt.Sprintf(" index=%d iopos=%d", rr.Intn(3), rr.Intn(50))
			case "set_report_metadata":
				// KVP (PNG text chunks), EXIF, ICCP, XMP, GAMA, CHRM, SRGB
				s.line += fmt.Sprintf(" fourcc=%d report=%d", []uint32{0x4B565020, 0x45584946, 0x49434350, 0x584D5020, 0x47414D41, 0x4348524D, 0x53524742}[rr.Intn(7)], []int{1, 1, 1, 0}[rr.Intn(4)])
			}
			statusReturning := coro || name == "set_quirk" || name == "restart_frame"
			// what does the steps list say about the current src/dst nullness?
			srcNull, dstNull = false, false
			for j := len(h.steps) - 1; j >= 0; j-- {
				if strings.HasPrefix(h.steps[j].line, "op=src ") {
					srcNull = strings.Contains(h.steps[j].line, "null=1")
					break
				}
			}
			if statusReturning {
				switch state {
				case "U":
					s.expect = []string{stInitNotCalled}
					s.why = "a status-returning method before a successful initialize must report 'initialize not called'"
				case "DIS":
					s.expect = []string{stDisabled}
					s.why = "after a failed coroutine call every status-returning call must report 'disabled by previous error'"
				case "OK":
					if coro {
						if active != "" && active != "?" && active != name {
							s.expect = []string{stInterleaved, stBadArg}
							s.why = "calling a different coroutine while one is suspended must fail"
						} else if ifc == "img" && active == "" {
							switch {
							case name == "decode_image_config" && imgSeq == "configured":
								s.expect = []string{stBadSeq, stBadArg}
								s.why = "decode_image_config after the image config was decoded is out of order"
							}
						}
					} else if name == "restart_frame" && imgSeq == "fresh" && active == "" {
						s.expect = []string{stBadSeq}
						s.why = "restart_frame before the image config is out of order"
					}
				}
			}
			_ = srcNull
			add(s)
			// The model's state after the call is settled when the observed status is known.
			if coro && state == "OK" {
				// outcome-dependent; resolved in checkHistory by replaying the same rules
			}
		}
	}
	return h
}

// checkHistory replays the observed results against the model. Generation and
// checking share the rules through a second pass: the expectations attached at
// generation time assumed every coroutine call's outcome class, which is only
// known now, so the state is re-derived here from the observed statuses and the
// expectation recomputed where it depends on it.
func checkHistory(h *histCase, objs []map[string]interface{}) (violKind, what string, classes []string) {
	ifc := ifaceOf(h.kind)
	state, active, imgSeq := "U", "", "fresh"
	oi := 0
	for _, s := range h.steps {
		if strings.HasPrefix(s.line, "op=new") {
			state, active, imgSeq = "U", "", "fresh"
			continue
		}
		if s.call == "" {
			continue
		}
		if oi >= len(objs) {
			break
		}
		o := objs[oi]
		oi++
		if wd.Str(o, "error") != "" {
			continue
		}
		st := wd.Str(o, "status")
		_, hasStatus := o["status"]
		if s.isInit {
			if s.goodIni {
				if strings.Contains(s.line, "opts=1") && st == "#base: initialize falsely claimed already zeroed" {
					// the model's zero-memory assumption can be stale after buffers were reused; not constrained
				} else if st != "" {
					return "initialize-rejected", fmt.Sprintf("%s: good initialize returned %q", h.kind, st), classes
				}
				if st == "" {
					state, active, imgSeq = "OK", "", "fresh"
				}
			} else {
				ok := false
				for _, e := range s.expect {
					if st == e {
						ok = true
					}
				}
				if !ok {
					return "initialize-accepted-bad-args", fmt.Sprintf("%s: [%s] returned %q; %s", h.kind, s.line, st, s.why), classes
				}
			}
			classes = append(classes, fmt.Sprintf("%s|%s|initialize|%s", h.kind, state, clsStatus(st)))
			continue
		}
		statusReturning := s.isCoro || s.call == "set_quirk" || s.call == "restart_frame"
		if !statusReturning || !hasStatus {
			classes = append(classes, fmt.Sprintf("%s|%s|%s|value", h.kind, state, s.call))
			continue
		}
		var expect []string
		why := ""
		switch state {
		case "U":
			expect, why = []string{stInitNotCalled}, "a status-returning method before a successful initialize must report 'initialize not called'"
		case "DIS":
			expect, why = []string{stDisabled}, "after a failed coroutine call every status-returning call must report 'disabled by previous error' until re-initialisation"
		case "OK":
			if s.isCoro {
				if active != "" && active != s.call {
					expect, why = []string{stInterleaved, stBadArg}, "calling a different coroutine while "+active+" is suspended must fail"
				} else if ifc == "img" && active == "" {
					switch {
					case s.call == "decode_image_config" && imgSeq == "configured":
						expect, why = []string{stBadSeq, stBadArg}, "decode_image_config after the image config was decoded must report 'bad call sequence'"
					case imgSeq == "metadata" && s.call != "tell_me_more":
						// doc/std/image-decoders-call-sequence.md: in the metadata side-track states only tell_me_more is in sequence
						expect, why = []string{stBadSeq, stBadArg}, s.call+" while reported metadata is pending (only tell_me_more is in sequence) must report 'bad call sequence'"
					}
				}
			} else if s.call == "restart_frame" && imgSeq == "fresh" && active == "" {
				expect, why = []string{stBadSeq}, "restart_frame before the image config must report 'bad call sequence'"
			}
		}
		if expect != nil {
			ok := false
			for _, e := range expect {
				if st == e {
					ok = true
				}
			}
			if !ok {
				return "protocol:" + s.call + ":state-" + state, fmt.Sprintf("%s: [%s] in model state %s (active=%q, image seq=%s) returned %q; %s", h.kind, s.line, state, active, imgSeq, st, why), classes
			}
		}
		if imgSeq == "metadata" {
			classes = append(classes, fmt.Sprintf("%s|metadata-pending|%s|%s", h.kind, s.call, clsStatus(st)))
		}
		classes = append(classes, fmt.Sprintf("%s|%s|%s|%s", h.kind, state, s.call, clsStatus(st)))
		// state update
		if state == "OK" {
			if s.isCoro {
				switch {
				case strings.HasPrefix(st, "#"):
					state, active = "DIS", ""
				case strings.HasPrefix(st, "$"):
					active = s.call
				default:
					active = ""
					if ifc == "img" {
						// only a plain OK settles the call sequence; notes such as
						// "@base: I/O redirect" or "@base: metadata reported" leave work pending
						if st == "" && (s.call == "decode_image_config" || s.call == "decode_frame_config" || s.call == "decode_frame") {
							imgSeq = "configured"
						} else if st == "@base: metadata reported" && s.call != "tell_me_more" {
							imgSeq = "metadata"
						} else {
							imgSeq = "other"
						}
					}
				}
				if ifc == "img" && strings.HasPrefix(st, "$") && imgSeq == "fresh" {
					imgSeq = "other" // something is in progress: no call-sequence expectation until it is known again
				}
			} else if strings.HasPrefix(st, "#") {
				// a non-coroutine error is not required to disable: resynchronise from the object
				if wd.Str(o, "magic") == "DISABLED" {
					state, active = "DIS", ""
				}
				if s.call == "restart_frame" {
					imgSeq = "other"
				}
			} else if s.call == "restart_frame" {
				imgSeq, active = "configured", ""
			}
		}
	}
	return "", "", classes
}

func clsStatus(st string) string {
	switch {
	case st == "":
		return "ok"
	case strings.HasPrefix(st, "$"):
		return "suspension"
	case strings.HasPrefix(st, "@"):
		return "note"
	case st == stInitNotCalled || st == stDisabled || st == stBadSeq || st == stInterleaved || st == stBadArg || st == stBadSizeof || st == stBadVersion:
		return st
	}
	return "error"
}

// histJobs builds n histories over all kinds.
func histJobs(r *drv.Run, phase string, n int, dir string) ([]*wd.Job, error) {
	// inputs: a few valid items per kind
	byKind := map[string][]*corpus.Item{}
	for _, it := range corpus.TestData(drv.RepoDir, 20000) {
		if len(byKind[it.Kind]) < 6 {
			byKind[it.Kind] = append(byKind[it.Kind], it)
		}
	}
	for _, it := range c07corpus(r, 120) {
		if len(it.Enc) < 20000 && len(byKind[it.Kind]) < 12 {
			byKind[it.Kind] = append(byKind[it.Kind], it)
		}
	}
	// PNGs carrying metadata chunks before and after the pixel data (reported only when opted in)
	for i := 0; i < 6; i++ {
		if p := corpus.PNGItem(vk.CaseRNG(r.Seed, 0, phase+"-meta", int64(i))); p != nil {
			q := *p
			q.Enc = corpus.PNGWithTextChunks(p.Enc, i%3)
			q.Setting += "+text-chunks"
			byKind["png"] = append([]*corpus.Item{&q}, byKind["png"]...)
		}
	}
	var all []*corpus.Item
	for _, its := range byKind {
		all = append(all, its...)
	}
	if err := corpus.WriteItems(dir, all, "p"); err != nil {
		return nil, err
	}
	var jobs []*wd.Job
	// the metadata side-track of the image call sequence: PNGs with text / EXIF
	// chunks before and after the pixel data, metadata reporting opted in, then
	// short call sequences biased towards the natural order (so that they get
	// as far as "@base: metadata reported" from either config call) with
	// out-of-sequence calls mixed in
	nMeta := 0
	for _, it := range byKind["png"] {
		if !strings.Contains(it.Setting, "+text-chunks") {
			continue
		}
		for k := 0; k < n/60+8; k++ {
			rr := vk.CaseRNG(r.Seed, k, phase+"-metaseq", int64(nMeta))
			nMeta++
			h := &histCase{kind: "png", input: it}
			add := func(s histStep) { h.steps = append(h.steps, s) }
			add(histStep{line: "op=new kind=png prefill=00 wb=9000000"})
			add(histStep{line: fmt.Sprintf("op=src in=%s wi=%d closed=1", it.Path, len(it.Enc))})
			add(histStep{line: "op=dst cap=4096 fill=00"})
			add(histStep{call: "initialize", isInit: true, goodIni: true, line: "op=init opts=0", expect: []string{""}, why: "initialize with the right size and version must succeed"})
			for _, fc := range [][]uint32{{0x4B565020}, {0x45584946}, {0x4B565020, 0x45584946}}[rr.Intn(3)] {
				add(histStep{call: "set_report_metadata", line: fmt.Sprintf("op=call call=set_report_metadata fourcc=%d report=1", fc)})
			}
			calls := 5 + rr.Intn(8)
			for c := 0; c < calls; c++ {
				name := "decode_image_config"
				if c > 0 || rr.Intn(10) == 0 {
					switch p := rr.Intn(100); {
					case p < 35:
						name = "decode_frame_config"
					case p < 60:
						name = "decode_frame"
					case p < 90:
						name = "tell_me_more"
					}
				}
				add(histStep{call: name, isCoro: true, line: "op=call call=" + name})
			}
			var sb strings.Builder
			sb.WriteString("job=hist cpu=60\n")
			for _, st := range h.steps {
				sb.WriteString(st.line + "\n")
			}
			sb.WriteString("end\n")
			jobs = append(jobs, &wd.Job{Text: sb.String(), Tag: h})
		}
	}
	for i := 0; i < n; i++ {
		rr := vk.CaseRNG(r.Seed, 0, phase, int64(i))
		kind := allKinds[rr.Intn(len(allKinds))]
		its := byKind[kind]
		var in *corpus.Item
		if len(its) == 0 || isHasher(kind) {
			in = all[rr.Intn(len(all))]
		} else {
			in = its[rr.Intn(len(its))]
		}
		h := genHistory(rr, kind, in, 30)
		var sb strings.Builder
		sb.WriteString("job=hist cpu=60\n")
		for _, s := range h.steps {
			sb.WriteString(s.line + "\n")
		}
		sb.WriteString("end\n")
		jobs = append(jobs, &wd.Job{Text: sb.String(), Tag: h})
	}
	return jobs, nil
}

func runC08(r *drv.Run) drv.Spec {
	sp := drv.Spec{
		Level: "exploration",
		Rule: "cases = seeded histories (<= 30 steps) over the public methods of every std struct through its interface: new (memory pre-filled 00/ff/a5/PRNG), good and bad initialize (sizeof, major, minor), valid/partial/closed/garbage/null source, ample/tiny/null destination, coroutine and non-coroutine calls, re-initialise and reuse; each call's status is checked against an explicit state machine that constrains only what the property states, and the C driver checks ri<=wi<=len, monotonic ri/wi, source bytes and already written destination bytes after every call; " +
			"distinct = (struct, model state, method, outcome class) tuples observed",
		Assumptions: []string{"model state after a non-coroutine error is resynchronised from the object's magic word (the property does not require such errors to disable)", "call-sequence expectations are asserted only in states the model knows exactly (fresh object, or image config just decoded with no coroutine suspended)"},
		MinEvals:    500, MinClasses: 60,
	}
	e := newCenv(r, cbuild.VAsan)
	n := 5000
	if r.Thorough() {
		n = 150000
	}
	jobs, err := histJobs(r, "c08", n, r.Scratch+"/c08")
	if err != nil {
		drv.Fatal("%v", err)
	}
	res := e.run("asan", jobs, "c08", 3000)
	for _, rs := range res {
		if rs == nil || rs.NotRun {
			continue
		}
		h := rs.Job.Tag.(*histCase)
		desc := map[string]interface{}{"kind": h.kind, "input": itemDesc(h.input), "script": rs.Job.Text}
		if len(h.input.Enc) <= 1<<15 {
			desc["enc_hex"] = hex.EncodeToString(h.input.Enc)
		}
		// C-side monitors: buffer contract (pure-method messages belong to C10)
		if rs.CrashK != "" {
			e.commonMonitors("protocol", "asan", rs, desc)
			continue
		}
		for _, m := range rs.Mon() {
			if strings.Contains(m, "pure method") || strings.Contains(m, "internal error status") {
				continue // C10's and C03's concerns; a history may also break client obligations C03 assumes
			}
			e.viol("buffer-contract:"+h.kind+":"+monClass(m), fmt.Sprintf("%s: %s", h.kind, m), desc)
		}
		e.eval(1)
		e.count("calls", int64(len(rs.Objs)))
		kind, what, classes := checkHistory(h, rs.Objs)
		for _, c := range classes {
			e.class(c)
		}
		if kind != "" {
			d := copyMap(desc)
			d["observed"] = rs.Objs
			e.viol("call-"+kind+":"+ifaceOf(h.kind), what, d)
		}
		if rs.Idx%499 == 0 {
			e.sample(map[string]interface{}{"kind": h.kind, "script": strings.Split(strings.TrimSpace(rs.Job.Text), "\n"), "observed_statuses": statusList(rs.Objs)})
		}
	}
	// The buffer contract under the finest interleaving of the two streams:
	// small valid io_transformer inputs decoded with source and destination both
	// handed over in pieces of 1..40 bytes (exact-size source windows); the
	// driver's per-call checks (ri <= wi <= len, monotonic indexes, source bytes
	// and written destination bytes untouched) are the oracle.
	items := smallCorpus(r, "c08fine", 600, 30, 0)
	corpus.WriteItems(r.Scratch+"/c08f", items, "f")
	var fjobs []*wd.Job
	nk := map[string]int{}
	per := 4
	if r.Thorough() {
		per = 60
	}
	for _, it := range items {
		if isImage(it.Kind) || isToken(it.Kind) || isHasher(it.Kind) || !it.Valid || len(it.Enc) < 8 || nk[it.Kind] >= per {
			continue
		}
		nk[it.Kind]++
		fjobs = append(fjobs, fineBothAxesJobs(r, it, len(fjobs))...)
	}
	for _, rs := range e.run("asan", fjobs, "c08-fine", 3000) {
		if rs == nil || rs.NotRun {
			continue
		}
		it := rs.Job.Tag.(*corpus.Item)
		desc := itemDesc(it)
		desc["enc_hex"] = hex.EncodeToString(it.Enc)
		desc["job"] = rs.Job.Text
		if rs.CrashK != "" {
			e.commonMonitors("protocol", "asan", rs, desc)
			continue
		}
		for _, m := range rs.Mon() {
			if strings.Contains(m, "internal error status") {
				continue
			}
			e.viol("buffer-contract:"+it.Kind+":"+monClass(m), fmt.Sprintf("%s: %s", it.Kind, m), desc)
		}
		if rs.Ended && len(rs.Objs) > 0 {
			o := rs.First()
			e.eval(1)
			e.count("fine_both_axes_calls", wd.Num(o, "calls"))
			e.class(fmt.Sprintf("fine-both|%s|%s", it.Kind, wd.Str(o, "status")))
		}
	}
	return sp
}

func statusList(objs []map[string]interface{}) []string {
	var out []string
	for _, o := range objs {
		if _, ok := o["status"]; ok {
			out = append(out, wd.Str(o, "call")+"="+wd.Str(o, "status"))
		} else {
			out = append(out, wd.Str(o, "call")+"->"+wd.Str(o, "value"))
		}
	}
	return out
}
