package props

import (
	"os"
	"path/filepath"

	"verif/internal/cbuild"
	"verif/internal/drv"
	"verif/internal/wgen"
)

// runProgs runs the PROGS engine of vmon (generator + real checker +
// reference interpreter + production C) in the given verdict mode.
func runProgs(r *drv.Run, mode string) {
	std, err := cbuild.GenStd(r, "plain", "", nil)
	if err != nil {
		drv.Fatal("generating std: %v", err)
	}
	tools, err := wgen.BuildTools(r, "", "tools-progs")
	if err != nil {
		drv.Fatal("%v", err)
	}
	root := filepath.Join(r.Scratch, "progs-root")
	os.MkdirAll(root, 0o755)
	os.WriteFile(filepath.Join(root, "wuffs-root-directory.txt"), []byte("scratch\n"), 0o644)
	bin, err := r.BuildGo("./cmd/vmon", "vmon-progs", drv.BuildOpts{Tags: "verif"})
	if err != nil {
		drv.Fatal("%v", err)
	}
	scratch := filepath.Join(r.Scratch, "progs-c")
	os.MkdirAll(scratch, 0o755)
	r.RunShards(bin, "PROGS-"+mode, 16, []string{"PROGS"}, drv.ChildOpts{
		WallSec: 3300, CPUSec: 3000, CrashIsViol: false,
		Env: []string{"VERIF_PROGS_MODE=" + mode, "VERIF_WUFFSC=" + filepath.Join(tools.Dir, "wuffs-c"), "VERIF_WROOT=" + root,
			"VERIF_BASEC=" + std.ReleaseC, "VERIF_PROGS_SCRATCH=" + scratch, "GOMAXPROCS=2"},
	})
}

func init() {
	c01generated = func(r *drv.Run, e *cenv) { runProgs(r, "c01") }

	Table["C02"] = Prop{Run: func(r *drv.Run) drv.Spec {
		runProgs(r, "c02")
		return drv.Spec{
			Level: "exploration",
			Rule: "cases = generated Wuffs programs (scenario family x variant) accepted by the real checker and executed by the reference interpreter over edge/random argument values, call histories and suspension patterns; before every statement each fact the checker held there (recorded by the verif hook in lang/check), every assert condition and every loop pre/inv/post condition is evaluated in ideal integers in the concrete state; each of the 20 axioms is instantiated with all tuples of arguments refined to [0..5], with each premise present and absent; " +
				"distinct = (scenario family/variant, fact shape class) pairs evaluated in a state where the fact was not implied by the operand types alone",
			Assumptions: []string{"facts whose shape the interpreter cannot evaluate are skipped and counted", "std's facts are not evaluated (the checked C build asserts ranges, not facts)"},
			MinEvals:    300, MinClasses: 20,
		}
	}}

	Table["C04"] = Prop{Run: func(r *drv.Run) drv.Spec {
		runProgs(r, "c04")
		return drv.Spec{
			Level: "exploration",
			Rule: "cases = generated Wuffs programs (safe variants of every scenario family, 1-3 scenarios per program) with call histories incl. suspend/resume; the trace of the production C emitted by the real wuffs-c (both -O2 and ASan+UBSan builds) is compared call by call with the reference interpreter's trace: return values / status strings, ri/wi of source and destination, hash of bytes written, hashes of slice arguments, all getters; programs on which the interpreter raised a safety or fact event are excluded; " +
				"distinct = (combination of scenario families, whether a suspension was taken) executed and compared",
			Assumptions: []string{"the reference interpreter (internal/wprog) is trusted code of the framework, validated against the production C on hand-written programs of the unchanged tree", "constructs outside the interpreter's subset (SIMD, pixel types, tokens, tables, `use`) are not covered here"},
			MinEvals:    100, MinClasses: 20,
		}
	}}
}
