package props

import (
	"encoding/hex"
	"fmt"
	"strings"

	"verif/internal/cbuild"
	"verif/internal/corpus"
	"verif/internal/drv"
	"verif/internal/vk"
	"verif/internal/wd"
)

// C01: accepted Wuffs programs never go out of bounds, overflow or deref null.
//
// Two legs: (a) generated programs near the checker's decision boundary run on
// the reference interpreter (obligations in ideal integers) and as sanitized C;
// (b) all of std — an accepted program — compiled as the *checked build*
// (every index, slice and non-modular arithmetic site asserts its obligation at
// run time) and driven with the hostile decode corpus.

func init() {
	Table["C01"] = Prop{Run: runC01}
}

// c01generated is the generated-program leg (set by progs.go).
var c01generated func(r *drv.Run, e *cenv)

func runC01(r *drv.Run) drv.Spec {
	sp := drv.Spec{
		Level: "exploration",
		Rule: "cases = (a) generated Wuffs programs (scenario family x variant: safe form and near-misses), each accepted one executed by the reference interpreter on edge/random argument values and call histories with every index/slice/arithmetic/conversion/assignment obligation evaluated in ideal integers, a sample also as ASan+UBSan C; (b) every std decoder on the hostile corpus in the checked build (run-time assertion at every index, slice and non-modular arithmetic site emitted by the verif-tagged generator) under ASan+UBSan; " +
			"distinct = (scenario family/variant, obligation kind) pairs evaluated with a value within 1 of its limit, plus (std decoder, final status) pairs run through the checked build",
		Assumptions: []string{"'for all programs' is sampled by the scenario generator; rejected programs are never executed", "the checked build covers index, slice, + - * << >> / % sites; refinement of stored values, I/O built-in pre-conditions and null receivers are covered by the interpreter leg only"},
		MinEvals:    300, MinClasses: 30,
	}
	e := newCenv(r, cbuild.VChecked)
	// (b) std on the checked build
	nValid, nFiles, mutPer := 150, 140, 2
	if r.Thorough() {
		nValid, nFiles, mutPer = 2500, 100000, 10
	}
	items := hostileCorpus(r, "c01std", nValid, nFiles, mutPer, 120<<10)
	if err := corpus.WriteItems(r.Scratch+"/c01", items, "k"); err != nil {
		drv.Fatal("%v", err)
	}
	var jobs []*wd.Job
	for i, it := range items {
		rr := vk.CaseRNG(r.Seed, 0, "c01job", int64(i))
		jobs = append(jobs, &wd.Job{Text: c03job(rr, it, func(t, p int) string { return randSplits(rr, t, p) }), Tag: it})
	}
	res := e.run("checked", jobs, "c01-checked", 3000)
	for _, rs := range res {
		if rs == nil || rs.NotRun {
			continue
		}
		it := rs.Job.Tag.(*corpus.Item)
		desc := itemDesc(it)
		if len(it.Enc) <= 1<<16 {
			desc["enc_hex"] = hex.EncodeToString(it.Enc)
		}
		if rs.CrashK != "" {
			d := copyMap(desc)
			d["job"], d["stderr"] = rs.Job.Text, rs.Crash
			if rs.CrashK == "cpu-budget" {
				continue // C03's concern
			}
			e.viol("unsafe-accepted:std:"+rs.CrashK, fmt.Sprintf("std %s (an accepted program) violated a safety obligation at run time: %s in job [%s]", it.Kind, rs.CrashK, strings.TrimSpace(firstLine(rs.Job.Text))), d)
			continue
		}
		if !rs.Ended || len(rs.Objs) == 0 {
			continue
		}
		o := rs.First()
		e.eval(1)
		e.count("std_decodes_checked_build", 1)
		e.class(fmt.Sprintf("std|%s|%s", it.Kind, clsStatus(wd.Str(o, "status"))))
	}
	if c01generated != nil {
		c01generated(r, e)
	}
	return sp
}
