package props

import "verif/internal/drv"

func init() {
	goLib("C17", 16, drv.ChildOpts{
		// Logical budgets: a Decode/Encode that hangs (RLIMIT_CPU) or allocates
		// absurdly (RLIMIT_AS) on some input is a verdict attributed to the
		// marked case. The quick tier lowers the CPU budget to 600 s itself.
		CPUSec: 3000, ASBytes: 4 << 30, WallSec: 5400,
		CrashIsViol: true, CrashSigPfx: "crash:",
		// 16 shards run at once: keep each one's GC from fanning out over every core
		Env: []string{"GOMAXPROCS=2", "GOGC=200"},
	}, drv.Spec{
		Level: "exploration",
		Rule: "round-trip cases = payload x {LZMA, Xz}: every length 0..1099 (thorough 0..4999) x {random, constant, text} exhaustively; a fixed table of k*65536+{-2..2} (k=1..5,8; thorough also 6,7,9,16,17,32,33), 2^7/2^14/2^21+{-2..2} and payloads searched so the block's unpadded size is 2^7/2^14+{-1,0,1}; " +
			"plus seeded random (kind, length) with kinds random/zero/0xFF/constant/long-0xFF-runs/0xFF-0x00 alternations/text/low-entropy/ramp/sparse/high-bit patterns/mixtures (also 64 KiB aligned mixtures). " +
			"Each case: Decode(Encode(x)) == (x, empty remainder, nil); `xz -dc -T1 --format=lzma|xz` exits 0 with exactly x; for Xz a structural walker written from the file-format specification accepts every container field. " +
			"Robustness cases = (format, mutation kind of a valid encoding | constructed hostile file | random bytes): no panic, len(out) <= 4096*len(src)+4096, no hang/OOM (rlimits). " +
			"distinct = (format, length class, LZMA2 chunk-kind sequence read back from the file by the walker, carry class counted by an independent shadow range encoder) for round trips, (format, mutation kind, outcome class) for robustness",
		Assumptions: []string{
			"the xz tool (XZ Utils liblzma) is a correct full LZMA/XZ decoder",
			"the third decoder leg (generated Wuffs std/lzma, std/xz) is not wired in yet (TODO hook c17wuffsLegHook)",
			"the shadow range encoder and the walker only classify; the walker's complaints are limited to MUSTs of the .xz specification",
			"RLIMIT_AS is 4 GiB and RLIMIT_CPU 600 s (quick) / 3000 s (thorough) per shard; the decoder allocates by produced output, not by claimed size",
		},
		MinEvals: 20000, MinClasses: 150,
	})
}
