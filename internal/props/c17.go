package props

import (
	"bufio"
	"fmt"
	"os"
	"path/filepath"
	"strings"

	"verif/internal/cbuild"
	"verif/internal/drv"
	"verif/internal/wd"
)

func init() {
	c17lib("C17", 16, drv.ChildOpts{
		// Logical budgets: a Decode/Encode that hangs (RLIMIT_CPU) or allocates
		// absurdly (RLIMIT_AS) on some input is a verdict attributed to the
		// marked case. The quick tier lowers the CPU budget to 600 s itself.
		CPUSec: 3000, ASBytes: 4 << 30, WallSec: 5400,
		CrashIsViol: true, CrashSigPfx: "crash:",
		// 16 shards run at once: keep each one's GC from fanning out over every core
		Env: []string{"GOMAXPROCS=2", "GOGC=200"},
	}, drv.Spec{
		Level: "exploration",
		Rule: "round-trip cases = payload x {LZMA, Xz}: every length 0..1099 (thorough 0..4999) x {random, constant, text} exhaustively; a fixed table of k*65536+{-2..2} (k=1..5,8; thorough also 6,7,9,16,17,32,33), 2^7/2^14/2^21+{-2..2} and payloads searched so the block's unpadded size is 2^7/2^14+{-1,0,1}; " +
			"plus seeded random (kind, length) with kinds random/zero/0xFF/constant/long-0xFF-runs/0xFF-0x00 alternations/text/low-entropy/ramp/sparse/high-bit patterns/mixtures (also 64 KiB aligned mixtures). " +
			"Each case: Decode(Encode(x)) == (x, empty remainder, nil); `xz -dc -T1 --format=lzma|xz` exits 0 with exactly x; for Xz a structural walker written from the file-format specification accepts every container field. " +
			"Robustness cases = (format, mutation kind of a valid encoding | constructed hostile file | random bytes): no panic, len(out) <= 4096*len(src)+4096, no hang/OOM (rlimits). " +
			"distinct = (format, length class, LZMA2 chunk-kind sequence read back from the file by the walker, carry class counted by an independent shadow range encoder) for round trips, (format, mutation kind, outcome class) for robustness",
		Assumptions: []string{
			"the xz tool (XZ Utils liblzma) is a correct full LZMA/XZ decoder",
			"third decoder leg: a bounded sample of the encodings (about 1000 quick / 24000 thorough) is decoded by the generated Wuffs std/lzma and std/xz decoders (ASan+UBSan build of the working tree's C)",
			"the shadow range encoder and the walker only classify; the walker's complaints are limited to MUSTs of the .xz specification",
			"RLIMIT_AS is 4 GiB and RLIMIT_CPU 600 s (quick) / 3000 s (thorough) per shard; the decoder allocates by produced output, not by claimed size",
		},
		MinEvals: 20000, MinClasses: 150,
	})
}

// c17lib is goLib plus the Wuffs-decoder leg: the vmon child exports a sample
// of its encodings, which the sanitized wdrive build must decode to the payload.
func c17lib(id string, shards int, o drv.ChildOpts, sp drv.Spec) {
	Table[id] = Prop{Run: func(r *drv.Run) drv.Spec {
		bin, err := r.BuildGo("./cmd/vmon", "vmon", drv.BuildOpts{Tags: "verif"})
		if err != nil {
			drv.Fatal("%v", err)
		}
		wdir := filepath.Join(r.Scratch, "c17w")
		os.MkdirAll(wdir, 0o755)
		o.Env = append(o.Env, "VERIF_C17_WDIR="+wdir)
		r.RunShards(bin, id, shards, []string{id}, o)
		if r.Replay != "" {
			return sp
		}
		e := newCenv(r, cbuild.VAsan)
		type exp struct {
			kind, hash, phase string
			plen, elen, idx   int64
		}
		var jobs []*wd.Job
		files, _ := filepath.Glob(filepath.Join(wdir, "manifest.*"))
		for _, mf := range files {
			f, err := os.Open(mf)
			if err != nil {
				continue
			}
			sc := bufio.NewScanner(f)
			for sc.Scan() {
				var name string
				var x exp
				if n, _ := fmt.Sscanf(sc.Text(), "%s %s %d %s %d %s %d", &name, &x.kind, &x.plen, &x.hash, &x.elen, &x.phase, &x.idx); n != 7 {
					continue
				}
				line := fmt.Sprintf("job=decode kind=%s in=%s dtotal=%d wbfixed=8389000 cpu=60", x.kind, name, x.plen+4096)
				if len(jobs)%3 == 1 {
					line += fmt.Sprintf(" splits=%d,1,1,7", x.elen/2)
				}
				jobs = append(jobs, &wd.Job{Text: line + "\n", Tag: x})
			}
			f.Close()
		}
		res := e.run("asan", jobs, "c17w", 3000)
		n := 0
		for _, rs := range res {
			if rs == nil {
				continue
			}
			x := rs.Job.Tag.(exp)
			desc := map[string]interface{}{"kind": x.kind, "phase": x.phase, "idx": x.idx, "payload_len": x.plen, "encoded_len": x.elen}
			if !e.commonMonitors("wuffs-decoder", "asan", rs, desc) {
				continue
			}
			o := rs.First()
			n++
			bad := ""
			switch {
			case wd.Str(o, "status") != "" || wd.Str(o, "outcome") != "final":
				bad = fmt.Sprintf("status %q outcome %s", wd.Str(o, "status"), wd.Str(o, "outcome"))
			case wd.Num(o, "out_len") != x.plen || wd.Str(o, "out_hash") != x.hash:
				bad = fmt.Sprintf("decoded %d bytes (hash %s), payload has %d bytes (hash %s)", wd.Num(o, "out_len"), wd.Str(o, "out_hash"), x.plen, x.hash)
			case wd.Num(o, "consumed") != x.elen:
				bad = fmt.Sprintf("consumed %d of %d encoded bytes", wd.Num(o, "consumed"), x.elen)
			}
			if bad != "" {
				desc["job"], desc["result"] = rs.Job.Text, o
				e.viol("wuffs-decoder-disagrees:"+x.kind, fmt.Sprintf("generated Wuffs std/%s decoder on a litonlylzma encoding (%s case %d, %d payload bytes): %s", x.kind, x.phase, x.idx, x.plen, bad), desc)
			}
			e.class(fmt.Sprintf("wuffs-leg|%s|%s|split=%v", x.kind, x.phase, strings.Contains(rs.Job.Text, "splits=")))
		}
		e.count("wuffs_decoder_leg_decodes", int64(n))
		if n == 0 {
			r.Inconclusive("the Wuffs decoder leg decoded nothing")
		}
		return sp
	}}
}
