package props

import "verif/internal/drv"

func init() {
	goLib("C18", 16, drv.ChildOpts{CPUSec: 3000, WallSec: 3000, Env: []string{"GOMAXPROCS=2"}, CrashIsViol: true, CrashSigPfx: "crash:"}, drv.Spec{
		Level: "exploration",
		Rule: "image cases = 1-4 images on one lowleveljpeg.Encoder; each image = (colour type, (w,h) from {1,7,8,9,15,16,17,31..65, random <=600, 65535 / near-65535 on one axis}, " +
			"quantisation tables {all-1, all-255, standard at quality 1..100, default (nil options), random, tie-prone mix, split}, coefficient generator {all-extreme +-1023/-1024, DC swings of +-2047, " +
			"zero runs of exactly 15/16/17/62 before a non-zero, EOB-only, sparse, uniform, small, near-half-quantum, hill-climbed longest/most-stuffed blocks, FDCT of pixel patterns}, " +
			"history {full, full+one extra unit, too few, wrong-N call, invalid block, writer failing at the k-th Write, refused Reset} each followed by calls after the error, fresh or reused Encoder); " +
			"every written byte is read back by an independent T.81 reader (Huffman tables taken from the file) and compared coefficient by coefficient with round-to-nearest(coef/q) (exact ties accepted either way), completed files also by image/jpeg; " +
			"distinct = (colour type, size class, coefficient class as confirmed in the decoded stream, quantisation class, history class) tuples (fresh/reused Encoder is counted, not part of the tuple) + (dct, pixel pattern) + (alloc, colour type, ...)",
		Assumptions: []string{
			"image/jpeg is correct as a second decoder (only acceptance and dimensions are used)",
			"images needing more than 20000 units are not completed: headers and the first 1500-4000 units are checked, and that no EOI has appeared",
			"the direction in which an exact tie (remainder exactly q/2) is rounded is not part of the property; both are accepted and counted",
			"a refused call is required to return a non-nil error; which error, and whether it wrote bytes, is only counted",
			"allocation freedom is measured with testing.AllocsPerRun on a pre-warmed Encoder and a non-allocating writer (minimum of 3 measurements)",
			"max_block_bytes_observed is what the workload reached, not a bound: the documented worst case (448) is an over-estimate that no Huffman-coded block attains",
		},
		MinEvals: 1000, MinClasses: 150,
	})
}
