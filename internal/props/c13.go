package props

import (
	"fmt"
	"os"
	"path/filepath"
	"regexp"
	"sort"
	"strings"

	"verif/internal/drv"
	"verif/internal/vk"
)

// C13: the monitor (internal/mon/c13.go) decides the round-trip, spec-validity
// and sticky-error clauses in 16 shards; in addition the same workload (small)
// runs in a -race build of vmon, whose only verdict is the race log.

var (
	c13reRaceFrame = regexp.MustCompile(`(?m)^\s+(github\.com/google/wuffs/\S+?)\(\)\s*$`)
)

// c13raceBlocks splits a race log into "WARNING: DATA RACE" blocks and returns
// the signature (first two wuffs frames) of each.
func c13raceBlocks(log string) []string {
	var sigs []string
	parts := strings.Split(log, "WARNING: DATA RACE")
	for _, p := range parts[1:] {
		if i := strings.Index(p, "=================="); i >= 0 {
			p = p[:i]
		}
		var fr []string
		for _, m := range c13reRaceFrame.FindAllStringSubmatch(p, -1) {
			f := strings.TrimPrefix(m[1], "github.com/google/wuffs/")
			if len(fr) == 0 || fr[len(fr)-1] != f {
				fr = append(fr, f)
			}
			if len(fr) == 2 {
				break
			}
		}
		sigs = append(sigs, "race:"+strings.Join(fr, "|"))
	}
	return sigs
}

func init() {
	Table["C13"] = Prop{Run: func(r *drv.Run) drv.Spec {
		type built struct {
			bin string
			err error
		}
		raceCh := make(chan built, 1)
		// VERIF_C13_NORACE=1 skips the -race leg (developer aid for mutation
		// runs, where only the monitor's own verdicts matter).
		wantRace := r.Replay == "" && os.Getenv("VERIF_C13_NORACE") == ""
		if wantRace {
			go func() {
				bin, err := r.BuildGo("./cmd/vmon", "vmon-race", drv.BuildOpts{Tags: "verif", Race: true})
				raceCh <- built{bin, err}
			}()
		}
		bin, err := r.BuildGo("./cmd/vmon", "vmon", drv.BuildOpts{Tags: "verif"})
		if err != nil {
			drv.Fatal("%v", err)
		}
		// A Writer or Reader that never returns is decided by a CPU budget per
		// shard (RLIMIT_CPU), set >= 15x above what the heaviest shard needs on a
		// loaded machine; the wall-clock watchdog stays inconclusive.
		cpu := uint64(600)
		if r.Thorough() {
			cpu = 7200
		}
		o := drv.ChildOpts{CPUSec: cpu, WallSec: 6000, CrashIsViol: true, CrashSigPfx: "crash:"}
		// The -race leg starts as soon as its binary is built and runs next to
		// the 16 ordinary shards.
		logBase := filepath.Join(r.Scratch, "race")
		nsh := 4
		if r.Thorough() {
			nsh = 16
		}
		raceDone := make(chan struct{})
		go func() {
			defer close(raceDone)
			if !wantRace {
				return
			}
			b := <-raceCh
			if b.err != nil {
				r.Inconclusive(fmt.Sprintf("race build: %v", b.err))
				return
			}
			ro := drv.ChildOpts{CPUSec: cpu, WallSec: 6000, CrashIsViol: true, CrashSigPfx: "crash(race-build):",
				Env: []string{"GORACE=halt_on_error=0 log_path=" + logBase, "C13_RACE=1"}}
			r.RunShards(b.bin, "C13race", nsh, []string{"C13"}, ro)
		}()
		// Quick tier: the one case with more than 255*255 chunks (three index
		// levels) runs in a child of its own next to the 16 shards; the thorough
		// tier has one such case inside every shard.
		deepDone := make(chan struct{})
		go func() {
			defer close(deepDone)
			if r.Thorough() {
				return
			}
			do := o
			do.Env = []string{"C13_ONLY=deep3"}
			r.RunShards(bin, "C13deep", 1, []string{"C13"}, do)
		}()
		r.RunShards(bin, "C13", 16, []string{"C13"}, o)
		<-deepDone
		<-raceDone

		if wantRace {
			files, _ := filepath.Glob(logBase + ".*")
			sort.Strings(files)
			blocks := 0
			for _, p := range files {
				bs, err := os.ReadFile(p)
				if err != nil {
					continue
				}
				for _, sig := range c13raceBlocks(string(bs)) {
					blocks++
					txt := string(bs)
					if len(txt) > 6000 {
						txt = txt[:6000]
					}
					r.Res.Violations = append(r.Res.Violations, vk.Violation{
						Sig:    sig,
						What:   fmt.Sprintf("the Go race detector reported a data race while the C13 workload ran (%s)", filepath.Base(p)),
						Replay: map[string]interface{}{"race_log": txt, "note": "re-run the check; race reports depend on scheduling"},
					})
				}
			}
			if r.Res.Counters == nil {
				r.Res.Counters = map[string]int64{}
			}
			r.Res.Counters["race_build_shards"] += int64(nsh)
			r.Res.Counters["race_blocks"] += int64(blocks)
			r.Extra["race_detector"] = map[string]interface{}{"shards": nsh, "log_files": len(files), "data_race_blocks": blocks}
		}
		return drv.Spec{
			Level: "exploration",
			Rule: "case = (payload class x Write partition x codec x CChunkSize/DChunkSize x CPageSize x IndexLocation x TempFile kind x dictionaries), then for the small ones every k-th underlying call failing; " +
				"distinct = (codec, sizing mode, some chunk's codec output shorter than its DRange i.e. zeroes elided [zlib: measured by decoding the chunk with compress/zlib; lz4/zstd: the chunk's DRange ends in a payload zero], CodecWriter.Cut succeeded, index depth 1/2/3+, page-size class, a leaf has a non-empty Secondary CRange, index location/temp-file kind, fault class = target-kind@public call in which it fired) tuples of cases whose file passed the spec walker and round-tripped",
			Assumptions: []string{
				"compress/zlib, hash/crc32 and bytes.Reader are correct",
				"the fault sweep is exhaustive per swept configuration (every k up to the call count of the fault-free run, for Writer.Write error/short and TempFile Write error/short, Read error/early EOF, Seek error); configurations are sampled",
				"a failing call fails once (transient); later underlying calls succeed",
				"the page-size clause checks the Writer field's documented promise (zero padding, minimum number of pages per chunk) and needs the write log, so it is skipped for raw bytes.Buffer / *os.File sinks",
				"the race detector only sees the interleavings that occurred",
			},
			MinEvals: 600, MinClasses: 150,
		}
	}}
}
