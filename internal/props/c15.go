package props

import (
	"verif/internal/drv"
)

func init() {
	goLib("C15", 16, drv.ChildOpts{CPUSec: 20000, ASBytes: 4 << 30, WallSec: 3000, CrashIsViol: true, CrashSigPfx: "crash:"}, drv.Spec{
		Level: "exploration",
		Rule: "cases = hostile RAC files: writer-made files (rac.Writer+raczlib and rac.ChunkWriter; 1..2000 chunks plus one ~22000-chunk three-level index per shard; index at start/end, CPageSize, C/DChunkSize, resources, zeroes/long codecs) with 1-3 index-node fields mutated through a spec-derived node parser and the checksum repaired (1 in 7 unrepaired), truncations at node boundaries +-1, extensions, embeddings in noise, lying CompressedSize/DPtrMax/CPtrMax from negative to 2^63, hand-made self/mutual/ancestor loops, deep chains, shared-subtree DAGs, random plausible node graphs, two-root ambiguity, noise behind a magic; " +
			"each file: ChunkReader walk, seeks, two rac.Reader decodes (different read sizes) under a counting ReadSeeker capped at 1000+64*(S/16)^2 calls per phase; " +
			"distinct = (family, mutated fields or sub-family, walk outcome / decode outcome) tuples; a mutated node counts only if the reader read it",
		Assumptions: []string{
			"S in the work bound is min(len(file), CompressedSize argument): the bytes the reader can actually see",
			"exceeding the 16 MiB decoded-output cap is counted as skipped, not as a violation (zero chunks legitimately expand)",
			"rac.Reader Seek+Read probes are only made when DecompressedSize <= 16 MiB",
			"loops that do no I/O are decided by a per-case RLIMIT_CPU budget of 30 s (a case needs milliseconds)",
			"an allocation > 64 MiB is a violation only when both the file and the CompressedSize argument are < 64 KiB",
		},
		MinEvals: 5000, MinClasses: 150,
	})
}
