package props

import (
	"fmt"
	"math/rand"
	"strings"
	"sync"

	"verif/internal/cbuild"
	"verif/internal/corpus"
	"verif/internal/drv"
	"verif/internal/vk"
	"verif/internal/wd"
)

// cenv is the C-side environment of one run: generated std + driver builds.
type cenv struct {
	r    *drv.Run
	std  *cbuild.Std
	bins map[string]string
	mu   sync.Mutex
}

func newCenv(r *drv.Run, variants ...cbuild.Variant) *cenv {
	std, err := cbuild.GenStd(r, "plain", "", nil)
	if err != nil {
		drv.Fatal("generating std from the working tree: %v", err)
	}
	e := &cenv{r: r, std: std, bins: map[string]string{}}
	stds := map[string]*cbuild.Std{"plain": std}
	for _, v := range variants {
		if v.GenVar == "checked" && stds["checked"] == nil {
			cs, err := cbuild.GenStd(r, "checked", "verif", []string{"WUFFS_VERIF=ranges"})
			if err != nil {
				drv.Fatal("generating the checked std from the working tree: %v", err)
			}
			stds["checked"] = cs
		}
	}
	var wg sync.WaitGroup
	errs := make([]error, len(variants))
	for i, v := range variants {
		wg.Add(1)
		go func(i int, v cbuild.Variant) {
			defer wg.Done()
			b, err := cbuild.BuildWdrive(r, stds[v.GenVar], v)
			errs[i] = err
			e.mu.Lock()
			e.bins[v.Name] = b
			e.mu.Unlock()
		}(i, v)
	}
	wg.Wait()
	for _, err := range errs {
		if err != nil {
			// The generated C of the unchanged tree compiles; a tree whose generated
			// std no longer compiles cannot be monitored: inconclusive, not a verdict.
			drv.Fatal("compiling wdrive: %v", err)
		}
	}
	return e
}

func (e *cenv) viol(sig, what string, detail map[string]interface{}) {
	e.mu.Lock()
	e.r.Res.Violations = append(e.r.Res.Violations, vk.Violation{Sig: sig, What: what, Replay: detail})
	e.mu.Unlock()
}
func (e *cenv) class(s string) {
	e.mu.Lock()
	if e.r.Res.Classes == nil {
		e.r.Res.Classes = map[string]int64{}
	}
	e.r.Res.Classes[s]++
	e.mu.Unlock()
}
func (e *cenv) eval(n int64) {
	e.mu.Lock()
	e.r.Res.Evaluations += n
	e.mu.Unlock()
}
func (e *cenv) count(s string, n int64) {
	e.mu.Lock()
	if e.r.Res.Counters == nil {
		e.r.Res.Counters = map[string]int64{}
	}
	e.r.Res.Counters[s] += n
	e.mu.Unlock()
}
func (e *cenv) sample(v interface{}) {
	e.mu.Lock()
	if len(e.r.Res.Samples) < 6 {
		e.r.Res.Samples = append(e.r.Res.Samples, v)
	}
	e.mu.Unlock()
}

// run executes jobs on a variant; a watchdog/infra failure is inconclusive.
func (e *cenv) run(variant string, jobs []*wd.Job, name string, wallSec int) []*wd.Result {
	res, err := wd.RunParallel(e.bins[variant], jobs, e.r.Scratch, name, nil, 16, wallSec)
	if err != nil {
		e.r.Inconclusive(fmt.Sprintf("wdrive[%s] %s: %v", variant, name, err))
	}
	return res
}

// commonMonitors reports sanitizer crashes and C-side monitor messages of a
// result as violations. It returns true if the job produced a usable object.
func (e *cenv) commonMonitors(pfx, variant string, res *wd.Result, desc map[string]interface{}) bool {
	if res == nil || res.NotRun {
		return false
	}
	kind := ""
	if d, ok := desc["kind"]; ok {
		kind = fmt.Sprint(d)
	}
	if res.CrashK != "" {
		d := copyMap(desc)
		d["variant"] = variant
		d["job"] = res.Job.Text
		d["stderr"] = res.Crash
		sig := pfx + ":" + res.CrashK
		if !strings.Contains(res.CrashK, "@") {
			sig += ":" + kind
		}
		e.viol(sig, fmt.Sprintf("%s build, %s decoder: %s in job [%s]", variant, kind, res.CrashK, strings.TrimSpace(firstLine(res.Job.Text))), d)
		return false
	}
	for _, m := range res.Mon() {
		d := copyMap(desc)
		d["variant"] = variant
		d["job"] = res.Job.Text
		e.viol(pfx+":monitor:"+kind+":"+monClass(m), fmt.Sprintf("%s build, %s: %s", variant, kind, m), d)
	}
	return res.Ended && len(res.Objs) > 0
}

func firstLine(s string) string {
	if i := strings.IndexByte(s, '\n'); i >= 0 {
		return s[:i]
	}
	return s
}

// monClass strips numbers from a monitor message to make a signature.
func monClass(m string) string {
	var b strings.Builder
	prev := false
	for _, c := range m {
		if c >= '0' && c <= '9' {
			if !prev {
				b.WriteByte('N')
			}
			prev = true
			continue
		}
		prev = false
		if c == ' ' {
			c = '-'
		}
		b.WriteRune(c)
		if b.Len() > 70 {
			break
		}
	}
	return b.String()
}

func copyMap(m map[string]interface{}) map[string]interface{} {
	o := map[string]interface{}{}
	for k, v := range m {
		o[k] = v
	}
	return o
}

// randSplits makes a comma-separated plan of n piece sizes biased to small pieces.
func randSplits(r *rand.Rand, total int, maxPieces int) string {
	if total <= 0 {
		return "0"
	}
	var parts []string
	n := 1 + r.Intn(maxPieces)
	for i := 0; i < n; i++ {
		var p int
		switch r.Intn(5) {
		case 0:
			p = 1
		case 1:
			p = 1 + r.Intn(8)
		case 2:
			p = 1 + r.Intn(200)
		default:
			p = 1 + r.Intn(total)
		}
		parts = append(parts, fmt.Sprint(p))
	}
	return strings.Join(parts, ",")
}

func itemDesc(it *corpus.Item) map[string]interface{} {
	return map[string]interface{}{"kind": it.Kind, "setting": it.Setting, "payload_class": it.PClass, "feature": it.Feature, "name": it.Name,
		"enc_len": len(it.Enc), "enc_hex_head": fmt.Sprintf("%x", head(it.Enc, 48))}
}

func head(b []byte, n int) []byte {
	if len(b) > n {
		return b[:n]
	}
	return b
}

// wbFor returns the work-buffer option for a decoder kind: the LZMA family
// learns its requirement (dictionary size + 273) only from the stream header
// and reports "#bad workbuf length" to a client that passed less, so the
// harness behaves like the repository's own clients and passes one generous
// buffer (8 MiB dictionary, the largest the corpus produces).
func wbFor(kind string) string {
	switch kind {
	case "lzma", "xz", "lzip":
		return " wbfixed=8389000"
	}
	return " wb=max"
}
