package props

import (
	"encoding/hex"
	"fmt"
	"strings"

	"verif/internal/cbuild"
	"verif/internal/corpus"
	"verif/internal/drv"
	"verif/internal/vk"
	"verif/internal/wd"
)

// C05: coroutine results do not depend on where the I/O streams are split.

func init() {
	Table["C05"] = Prop{Run: runC05}
}

// smallCorpus returns inputs of at most maxLen bytes: small test files, small
// reference encodings, and truncations/mutations of both.
func smallCorpus(r *drv.Run, phase string, maxLen, nGen, mutPer int) []*corpus.Item {
	var base []*corpus.Item
	for _, f := range corpus.TestData(drv.RepoDir, int64(maxLen)) {
		base = append(base, f)
	}
	for i := 0; len(base) < nGen+60 && i < 100000; i++ {
		rr := vk.CaseRNG(r.Seed, 0, phase+"-gen", int64(i))
		var its []*corpus.Item
		switch i % 5 {
		case 0:
			its = append(its, corpus.PNGItem(rr))
		case 1:
			if g := corpus.GIFItem(rr); g != nil {
				its = append(its, g)
			}
		default:
			cls := []string{"tiny", "text", "random", "runs", "lowentropy", "one", "empty"}[rr.Intn(7)]
			p := corpus.MakePayload(rr, cls)
			if len(p.B) > 1500 {
				p.B = p.B[:1500]
			}
			its = append(its, corpus.FlateFamily(rr, p)...)
			if len(p.B) > 0 {
				its = append(its, corpus.LZWItem(rr, p))
			}
			if i%4 == 2 {
				ti, err := corpus.ToolItems(rr, p)
				if err == nil {
					its = append(its, ti...)
				}
			}
			if i%10 == 3 {
				its = append(its, corpus.HashItems(p)...)
			}
		}
		for _, it := range its {
			if len(it.Enc) <= maxLen {
				base = append(base, it)
			}
		}
	}
	var items []*corpus.Item
	for i, b := range base {
		items = append(items, b)
		mr := vk.CaseRNG(r.Seed, 0, phase+"-mut", int64(i))
		for m := 0; m < mutPer; m++ {
			enc, how := corpus.Mutate(mr, b.Enc)
			if len(enc) > maxLen {
				enc = enc[:maxLen]
			}
			items = append(items, &corpus.Item{Kind: b.Kind, Name: b.Name, Enc: enc, Setting: "mutated:" + how, PClass: b.Setting})
		}
	}
	return items
}

func runC05(r *drv.Run) drv.Spec {
	sp := drv.Spec{
		Level: "exploration",
		Rule: "cases = for each (decoder, input <= 8 KiB: valid, truncated, corrupted) one sweep over EVERY single split point of the source (and, for io_transformers, of the destination capacity), each chunked run compared with the one-shot run of the same compiled code on output bytes, final status, getters and (non-error finals) consumed count; plus seeded random multi-splits down to 1 byte on larger inputs; plus generated coroutine programs (families that touch their streams only through `?` methods: randomly structured bodies with locals live across suspensions on if/else/loop/break/continue/nested-call paths, multi-byte reads and writes) accepted by the real checker, compiled by the real wuffs-c (ASan+UBSan and -O2), each run one-shot and under every single source split, every single capacity split, byte-by-byte and random multi-splits; " +
			"distinct = (decoder, axis, reference status, whether suspensions were taken, input class) tuples, and (generated family/variant, resumed, final class) for the generated leg; evaluations counts individual chunked decodes plus generated programs",
		Assumptions: []string{"single-split sweeps are exhaustive per input (every split point); inputs and multi-split plans are sampled", "ASan+UBSan build of the C generated from the working tree; image and token decoders are split in the source only"},
		MinEvals:    2000, MinClasses: 30, Exhaustive: false,
	}
	e := newCenv(r, cbuild.VAsan)
	maxLen, nGen, mutPer := 2500, 40, 1
	budget := 20000 // total chunked decodes in sweeps
	if r.Thorough() {
		maxLen, nGen, mutPer = 8192, 400, 3
		budget = 3000000
	}
	corpus.MaxXzPreset = 1 // dictionaries <= 1 MiB so that the per-run work buffer stays small
	items := smallCorpus(r, "c05", maxLen, nGen, mutPer)
	corpus.MaxXzPreset = 6
	rr := vk.CaseRNG(r.Seed, 0, "c05-order", 0)
	rr.Shuffle(len(items), func(i, j int) { items[i], items[j] = items[j], items[i] })
	if err := corpus.WriteItems(r.Scratch+"/c05", items, "s"); err != nil {
		drv.Fatal("%v", err)
	}
	var jobs []*wd.Job
	used := 0
	perKind := map[string]int{}
	for _, it := range items {
		if used > budget {
			break
		}
		// spread the budget over the decoders
		if perKind[it.Kind] > budget/12 {
			continue
		}
		base := fmt.Sprintf("kind=%s in=%s cpu=600 maxframes=4", it.Kind, it.Path)
		if isImage(it.Kind) {
			base += " pixfmt=bgra wb=max"
		} else if !isHasher(it.Kind) && !isToken(it.Kind) {
			// one object + buffers are allocated per chunked run: keep them small
			base += " dtotal=100000"
			if it.Kind == "lzma" || it.Kind == "xz" || it.Kind == "lzip" {
				// must cover the dictionary of every input (a too small work buffer is a
				// client error whose report legitimately depends on where suspensions fall)
				base += " wbfixed=8389000"
			} else {
				base += " wb=max"
			}
		}
		// exact-size source allocations: a read past the supplied bytes hits the
		// sanitizer's red zone at every split point of the sweep
		jobs = append(jobs, &wd.Job{Text: "job=sweep axis=src salloc=exact " + base + "\n", Tag: it})
		used += len(it.Enc) + 1
		perKind[it.Kind] += len(it.Enc) + 1
		if !isImage(it.Kind) && !isHasher(it.Kind) && !isToken(it.Kind) && it.Payload != nil && len(it.Payload) <= maxLen {
			jobs = append(jobs, &wd.Job{Text: "job=sweep axis=dst " + base + "\n", Tag: it})
			used += len(it.Payload) + 1
			perKind[it.Kind] += len(it.Payload) + 1
		}
	}
	res := e.run("asan", jobs, "c05-sweep", 3000)
	for _, rs := range res {
		if rs == nil {
			continue
		}
		it := rs.Job.Tag.(*corpus.Item)
		desc := itemDesc(it)
		if len(it.Enc) <= 1<<16 {
			desc["enc_hex"] = hex.EncodeToString(it.Enc)
		}
		// monitor messages of a sweep are split mismatches (and the usual per-call monitors)
		if !e.commonMonitors("split", "asan", rs, desc) {
			continue
		}
		o := rs.First()
		e.eval(wd.Num(o, "runs"))
		e.count("sweeps", 1)
		if n := wd.Num(o, "mismatches"); n > 0 {
			dd := copyMap(desc)
			dd["job"], dd["result"] = rs.Job.Text, o
			e.viol(fmt.Sprintf("split-dependence:%s:%s-sweep:%s", it.Kind, wd.Str(o, "sweep"), streamFeature(it)),
				fmt.Sprintf("%s [%s %s]: %d of %d single-split runs differ from the one-shot run; first: %s", it.Kind, it.Name, it.Setting, n, wd.Num(o, "runs"), wd.Str(o, "first_mismatch")), dd)
		}
		e.count("resumed_runs", wd.Num(o, "resumed"))
		st := wd.Str(o, "status")
		cls := "valid"
		if strings.HasPrefix(it.Setting, "mutated") {
			cls = "mutated"
		}
		e.class(fmt.Sprintf("%s|%s|%s|resumed=%v|%s", it.Kind, wd.Str(o, "sweep"), st, wd.Num(o, "resumed") > 0, cls))
		if rs.Idx%37 == 0 {
			e.sample(map[string]interface{}{"item": itemDesc(it), "job": strings.TrimSpace(rs.Job.Text), "result": o})
		}
	}

	// random multi-splits on larger inputs, compared on the Go side
	nBig := 40
	if r.Thorough() {
		nBig = 1500
	}
	big := hostileCorpus(r, "c05big", nBig/2, nBig/2, 1, 120<<10)
	// LZMA / XZ with a 4 KiB dictionary (ring-buffer seams, far matches): these
	// get a client that drains a small destination buffer after every call, so
	// that the decoder's history goes through the work buffer
	for i := 0; i < 3+nBig/40; i++ {
		if sd, err := corpus.SmallDictItems(vk.CaseRNG(r.Seed, 0, "c05smalldict", int64(i))); err == nil {
			big = append(big, sd...)
		}
	}
	if err := corpus.WriteItems(r.Scratch+"/c05b", big, "b"); err != nil {
		drv.Fatal("%v", err)
	}
	var mjobs []*wd.Job
	const K = 4
	for i, it := range big {
		base := fmt.Sprintf("job=decode kind=%s in=%s cpu=60 maxframes=4", it.Kind, it.Path)
		if isImage(it.Kind) {
			base += " pixfmt=bgra wb=max"
		} else if !isHasher(it.Kind) && !isToken(it.Kind) {
			base += " dtotal=1500000" + wbFor(it.Kind)
		}
		mjobs = append(mjobs, &wd.Job{Text: base + "\n", Tag: it})
		for k := 0; k < K; k++ {
			mr := vk.CaseRNG(r.Seed, k, "c05multi", int64(i))
			line := base + " splits=" + randSplits(mr, len(it.Enc), 40)
			if !isImage(it.Kind) && !isHasher(it.Kind) && !isToken(it.Kind) {
				line += " dcaps=" + randSplits(mr, 70000, 30)
			}
			if mr.Intn(2) == 0 {
				line += " close=late"
			}
			if k%2 == 1 {
				line += " salloc=exact"
			}
			if it.PClass == "periodic" {
				line = base + fmt.Sprintf(" mode=compact sbuf=%d dbuf=%d", []int{4096, 100, 9000}[mr.Intn(3)], 300+mr.Intn(5000)) // std/lzma needs 274 free destination bytes to make progress
			}
			mjobs = append(mjobs, &wd.Job{Text: line + "\n", Tag: it})
		}
	}
	mres := e.run("asan", mjobs, "c05-multi", 3000)
	for i := 0; i+K < len(mres); i += K + 1 {
		ref := mres[i]
		if ref == nil {
			continue
		}
		it := ref.Job.Tag.(*corpus.Item)
		desc := itemDesc(it)
		if len(it.Enc) <= 1<<16 {
			desc["enc_hex"] = hex.EncodeToString(it.Enc)
		}
		if !e.commonMonitors("split", "asan", ref, desc) {
			continue
		}
		ro := ref.First()
		for k := 1; k <= K; k++ {
			rs := mres[i+k]
			if rs == nil || !e.commonMonitors("split", "asan", rs, desc) {
				continue
			}
			o := rs.First()
			e.eval(1)
			if d := summaryDiff(it.Kind, ro, o); d != "" {
				dd := copyMap(desc)
				dd["reference_job"], dd["reference"] = ref.Job.Text, ro
				dd["job"], dd["result"] = rs.Job.Text, o
				e.viol("split-dependence:"+it.Kind+":multi:"+streamFeature(it), fmt.Sprintf("%s: chunked run differs from the one-shot run: %s", it.Kind, d), dd)
			}
			susp := wd.Num(o, "short_reads")+wd.Num(o, "short_writes") > 0
			e.class(fmt.Sprintf("%s|multi|%s|resumed=%v", it.Kind, wd.Str(ro, "status"), susp))
		}
	}
	// generated coroutine programs (liveness / scratch mechanisms of the code generator)
	runProgs(r, "c05")
	return sp
}

// summaryDiff compares the split-independent fields of two decode results.
func summaryDiff(kind string, a, b map[string]interface{}) string {
	fields := []string{"init", "status", "outcome", "out_len", "out_hash", "value", "w", "h", "frames", "pix_hash", "all_hash", "token_len", "stalled"}
	for _, f := range fields {
		if wd.Str(a, f) != wd.Str(b, f) {
			return fmt.Sprintf("%s %q vs %q", f, wd.Str(a, f), wd.Str(b, f))
		}
	}
	if fmt.Sprint(a["getters"]) != fmt.Sprint(b["getters"]) {
		return fmt.Sprintf("getters %v vs %v", a["getters"], b["getters"])
	}
	st := wd.Str(a, "status")
	if !strings.HasPrefix(st, "#") && wd.Num(a, "consumed") != wd.Num(b, "consumed") {
		return fmt.Sprintf("consumed %d vs %d", wd.Num(a, "consumed"), wd.Num(b, "consumed"))
	}
	return ""
}

// streamFeature names the stream-level feature a split-dependence signature is
// keyed on, so that a known finding about one feature does not hide another.
func streamFeature(it *corpus.Item) string {
	if it.Kind == "xz" && len(it.Enc) > 14 && string(it.Enc[:6]) == "\xfd7zXZ\x00" {
		// block header: size byte, then flags whose low two bits are (number of filters - 1)
		if it.Enc[13]&3 != 0 {
			return "non-final-filter"
		}
		return "lzma2-only"
	}
	if strings.HasPrefix(it.Setting, "mutated") {
		return "mutated-input"
	}
	return "valid-input"
}
