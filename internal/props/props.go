// Package props wires each property id to its orchestration.
package props

import (
	"verif/internal/drv"
)

type Prop struct {
	PreferShm bool
	Run       func(r *drv.Run) drv.Spec
}

var Table = map[string]Prop{}

// goLib registers a property decided wholly by a vmon monitor.
func goLib(id string, shards int, o drv.ChildOpts, sp drv.Spec) {
	Table[id] = Prop{Run: func(r *drv.Run) drv.Spec {
		bin, err := r.BuildGo("./cmd/vmon", "vmon", drv.BuildOpts{Tags: "verif"})
		if err != nil {
			drv.Fatal("%v", err)
		}
		r.RunShards(bin, id, shards, []string{id}, o)
		return sp
	}}
}

func init() {
	goLib("C06", 16, drv.ChildOpts{WallSec: 3000, CrashIsViol: true, CrashSigPfx: "crash:"}, drv.Spec{
		Level: "exploration",
		Rule: "cases = (op, X, Y) with bounds drawn from bit-pattern-aware values (2^k, 2^k±1, around 2^32/2^64, bit-fills with a hole, small ints), shapes finite/half-infinite/infinite/empty/point, narrow windows at any magnitude for full enumeration; " +
			"distinct = (op, sign class of X, sign class of Y, shape pair, magnitude bucket[, fail]) tuples that were actually evaluated against the math/big oracle",
		Assumptions: []string{"math/big is correct", "left-shift reference is computed only for shift counts < 2^13 and shift-count bounds stay below ~2^9 (larger ones need gigabytes in the implementation itself)",
			"and/or tightness is asserted only for boxes fully enumerated (both widths < 512, <= 70000 pairs); wider boxes get the soundness check only"},
		MinEvals: 1000, MinClasses: 100,
	})
}
