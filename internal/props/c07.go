package props

import (
	"crypto/sha256"
	"encoding/hex"
	"fmt"
	"hash/adler32"
	"hash/crc32"
	"hash/crc64"
	"math/rand"
	"strings"

	"verif/internal/cbuild"
	"verif/internal/corpus"
	"verif/internal/drv"
	"verif/internal/vk"
	"verif/internal/wd"
)

// C07: std codecs agree with independent implementations on valid data.

func init() {
	Table["C07"] = Prop{Run: runC07}
}

func refHash(kind string, p []byte) string {
	switch kind {
	case "crc32":
		return fmt.Sprintf("%016x", crc32.ChecksumIEEE(p))
	case "adler32":
		return fmt.Sprintf("%016x", adler32.Checksum(p))
	case "crc64":
		return fmt.Sprintf("%016x", crc64.Checksum(p, crc64.MakeTable(crc64.ECMA)))
	case "sha256":
		s := sha256.Sum256(p)
		return hex.EncodeToString(s[:])
	}
	return ""
}

// c07corpus builds n reference-encoded items.
func c07corpus(r *drv.Run, n int) []*corpus.Item {
	var items []*corpus.Item
	toolErr := false
	for i := 0; len(items) < n; i++ {
		rr := vk.CaseRNG(r.Seed, 0, "c07corpus", int64(i))
		if i%64 == 5 {
			// a megabyte of 0xFF: hashed in one update and inside zlib/gzip
			p := corpus.MakePayload(rr, "hugeff")
			items = append(items, corpus.HashItems(p)...)
			items = append(items, corpus.FlateFamily(rr, p)...)
			continue
		}
		if i%64 == 13 && !toolErr {
			// stored / uncompressed units in the middle of a stream
			p := corpus.MakePayload(rr, "sandwich")
			if ti, err := corpus.ToolItems(rr, p); err == nil {
				items = append(items, ti...)
			}
			items = append(items, corpus.FlateFamily(rr, p)[:1]...)
			continue
		}
		if i%64 == 9 && !toolErr {
			// multi-block streams (bzip2's combined stream CRC, xz block lists)
			p := corpus.MakePayload(rr, "multiblock")
			if ti, err := corpus.ToolItems(rr, p); err == nil {
				items = append(items, ti...)
			}
			items = append(items, corpus.FlateFamily(rr, p)[:1]...)
			continue
		}
		switch i % 8 {
		case 6:
			items = append(items, corpus.PNGItem(rr), corpus.PNGItem(rr), corpus.PNGItem(rr))
			continue
		case 7:
			if g := corpus.GIFItem(rr); g != nil {
				items = append(items, g)
			}
			items = append(items, corpus.PNGItem(rr))
			continue
		}
		cls := corpus.PayloadClasses[rr.Intn(len(corpus.PayloadClasses))]
		p := corpus.MakePayload(rr, cls)
		items = append(items, corpus.FlateFamily(rr, p)...)
		if len(p.B) > 0 {
			items = append(items, corpus.LZWItem(rr, p))
		}
		items = append(items, corpus.HashItems(p)...)
		if i%3 == 0 && !toolErr {
			ti, err := corpus.ToolItems(rr, p)
			if err != nil {
				toolErr = true
				r.Inconclusive("reference tool unavailable: " + err.Error())
			}
			items = append(items, ti...)
		}
	}
	return items
}

func runC07(r *drv.Run) drv.Spec {
	sp := drv.Spec{
		Level: "exploration",
		Rule: "cases = (format, reference-encoder setting, payload class) round trips: payload -> Go flate/zlib/gzip/lzw/png/gif or system bzip2/xz -> generated Wuffs decoder (ASan+UBSan build and -O2 build) -> compare bytes/pixels/status/consumed count; hashers over random update partitions vs Go's hash packages; " +
			"distinct = (format, setting, payload class, stream feature confirmed by scanning the encoded stream) tuples whose decode was compared",
		Assumptions: []string{"reference encoders (Go standard library, /usr/bin bzip2 and xz) produce valid streams", "PNG/GIF expectations are the pixels given to the encoder (non-premultiplied sources only, so the encoders are lossless)"},
		MinEvals:    200, MinClasses: 40,
	}
	e := newCenv(r, cbuild.VAsan, cbuild.VPlain)
	n := 2000
	if r.Thorough() {
		n = 40000
	}
	items := c07corpus(r, n)
	// hashers at their block boundaries: payloads of 1..3 blocks (+-1 byte) for
	// block sizes 16/32/64/128, hashed under EVERY two-piece partition and under
	// three-piece partitions whose cuts sit around the block boundaries
	type part struct {
		it     *corpus.Item
		splits string
	}
	var parts []part
	{
		hr := vk.CaseRNG(r.Seed, 0, "c07hashblocks", 0)
		seenT := map[int]bool{}
		for _, B := range []int{16, 32, 64, 128} {
			for _, T := range []int{B, 2 * B, 3 * B, 2*B - 1, 2*B + 1} {
				if seenT[T] {
					continue
				}
				seenT[T] = true
				buf := make([]byte, T)
				hr.Read(buf)
				his := corpus.HashItems(corpus.Payload{B: buf, Class: fmt.Sprintf("blocks-%d", T)})
				items = append(items, his...)
				for _, hi := range his {
					for k := 1; k < T; k++ {
						parts = append(parts, part{hi, fmt.Sprintf("%d,%d", k, T-k)})
					}
					for _, a := range []int{1, B - 1, B, B + 1} {
						for b := 1; b <= B && a+b < T; b++ {
							parts = append(parts, part{hi, fmt.Sprintf("%d,%d,%d", a, b, T-a-b)})
						}
					}
				}
			}
		}
	}
	if err := corpus.WriteItems(r.Scratch+"/c07", items, "i"); err != nil {
		drv.Fatal("%v", err)
	}
	var jobs []*wd.Job
	for i, it := range items {
		rr := rand.New(rand.NewSource(r.Seed*1000003 + int64(i)))
		line := fmt.Sprintf("job=decode kind=%s in=%s", it.Kind, it.Path)
		switch {
		case it.Pix != nil:
			if it.Pix.Depth == 16 {
				line += " pixfmt=bgra64"
			} else {
				line += " pixfmt=bgra"
			}
			line += " maxframes=8"
			if rr.Intn(2) == 0 {
				line += " splits=" + randSplits(rr, len(it.Enc), 6)
			}
		case refHash(it.Kind, nil) != "":
			if rr.Intn(3) != 0 {
				line += " splits=" + randSplits(rr, len(it.Enc), 8)
			} // else: the whole input in one update call
		default:
			line += fmt.Sprintf(" dtotal=%d", len(it.Payload)+70000)
			if rr.Intn(2) == 0 {
				line += " splits=" + randSplits(rr, len(it.Enc), 6) + " dcaps=" + randSplits(rr, len(it.Payload)+1, 4)
			}
			line += wbFor(it.Kind)
		}
		jobs = append(jobs, &wd.Job{Text: line + "\n", Tag: it})
	}
	for _, p := range parts {
		jobs = append(jobs, &wd.Job{Text: fmt.Sprintf("job=decode kind=%s in=%s splits=%s\n", p.it.Kind, p.it.Path, p.splits), Tag: p.it})
	}
	for _, variant := range []string{"asan", "plain"} {
		res := e.run(variant, jobs, "c07-"+variant, 3000)
		for _, rs := range res {
			if rs == nil {
				continue
			}
			it := rs.Job.Tag.(*corpus.Item)
			desc := itemDesc(it)
			if len(it.Enc) <= 1<<16 {
				desc["enc_hex"] = hex.EncodeToString(it.Enc)
			}
			if !e.commonMonitors("codec", variant, rs, desc) {
				continue
			}
			o := rs.First()
			e.eval(1)
			bad := func(kind, msg string) {
				d := copyMap(desc)
				d["variant"] = variant
				d["job"] = rs.Job.Text
				d["result"] = o
				e.viol("codec-disagrees:"+it.Kind+":"+kind, fmt.Sprintf("%s (%s, %s payload, %s build): %s", it.Kind, it.Setting, it.PClass, variant, msg), d)
			}
			if wd.Str(o, "init") != "" {
				bad("init", "initialize failed: "+wd.Str(o, "init"))
				continue
			}
			cls := fmt.Sprintf("%s|%s|%s|%s", it.Kind, strings.SplitN(it.Setting, "/", 2)[0], it.PClass, it.Feature)
			switch {
			case it.Pix != nil:
				want := fmt.Sprintf("%016x", corpus.FNV1a64(it.Pix.BGRA))
				st := wd.Str(o, "status")
				if st != "@base: end of data" {
					bad("status", "final status "+st+" (stage "+wd.Str(o, "stage")+")")
				} else if int(wd.Num(o, "w")) != it.Pix.W || int(wd.Num(o, "h")) != it.Pix.H {
					bad("dimensions", fmt.Sprintf("decoded %dx%d, encoded %dx%d", wd.Num(o, "w"), wd.Num(o, "h"), it.Pix.W, it.Pix.H))
				} else if int(wd.Num(o, "frames")) != it.Pix.Frames {
					bad("frames", fmt.Sprintf("decoded %d frames, encoded %d", wd.Num(o, "frames"), it.Pix.Frames))
				} else if wd.Str(o, "pix_hash") != want {
					bad("pixels", "decoded pixels differ from the pixels given to the reference encoder")
				} else if int(wd.Num(o, "consumed")) != len(it.Enc) {
					bad("consumed", fmt.Sprintf("consumed %d of %d bytes", wd.Num(o, "consumed"), len(it.Enc)))
				}
			case refHash(it.Kind, nil) != "":
				if got, want := wd.Str(o, "value"), refHash(it.Kind, it.Payload); got != want {
					bad("value", fmt.Sprintf("hash %s, reference %s (len %d, %d updates)", got, want, len(it.Payload), wd.Num(o, "updates")))
				}
				cls = fmt.Sprintf("%s|%s|len%%64=%d", it.Kind, it.PClass, len(it.Payload)%64)
			default:
				want := fmt.Sprintf("%016x", corpus.FNV1a64(it.Payload))
				st := wd.Str(o, "status")
				if st != "" || wd.Str(o, "outcome") != "final" {
					bad("status", fmt.Sprintf("final status %q outcome %s", st, wd.Str(o, "outcome")))
				} else if int(wd.Num(o, "out_len")) != len(it.Payload) || wd.Str(o, "out_hash") != want {
					bad("bytes", fmt.Sprintf("decoded %d bytes (hash %s), payload is %d bytes (hash %s)", wd.Num(o, "out_len"), wd.Str(o, "out_hash"), len(it.Payload), want))
				} else if int(wd.Num(o, "consumed")) != len(it.Enc) {
					bad("consumed", fmt.Sprintf("consumed %d of %d encoded bytes", wd.Num(o, "consumed"), len(it.Enc)))
				}
			}
			e.class(cls)
			if variant == "asan" && rs.Idx%97 == 0 {
				e.sample(map[string]interface{}{"item": itemDesc(it), "job": strings.TrimSpace(rs.Job.Text), "result": o})
			}
		}
	}
	return sp
}
