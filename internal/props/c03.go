package props

import (
	"encoding/hex"
	"fmt"
	"sort"
	"strings"

	"verif/internal/cbuild"
	"verif/internal/corpus"
	"verif/internal/drv"
	"verif/internal/vk"
	"verif/internal/wd"
)

// C03: the generated standard library is memory-safe and well-behaved on any input.

func init() {
	Table["C03"] = Prop{Run: runC03}
}

var allKinds = []string{"adler32", "crc32", "xxhash32", "crc64", "xxhash64", "sha256", "bzip2", "deflate", "gzip", "lzip", "lzma", "lzw", "xz", "zlib",
	"bmp", "etc2", "gif", "handsum", "jpeg", "netpbm", "nie", "png", "qoi", "targa", "thumbhash", "vp8", "wbmp", "webp", "cbor", "json"}

func isHasher(k string) bool {
	switch k {
	case "adler32", "crc32", "xxhash32", "crc64", "xxhash64", "sha256":
		return true
	}
	return false
}
func isImage(k string) bool {
	switch k {
	case "bmp", "etc2", "gif", "handsum", "jpeg", "netpbm", "nie", "png", "qoi", "targa", "thumbhash", "vp8", "wbmp", "webp":
		return true
	}
	return false
}
func isToken(k string) bool { return k == "cbor" || k == "json" }

// hostileCorpus = test data + valid encodings + mutations of both, each kind
// also fed some inputs of other formats and random bytes.
func hostileCorpus(r *drv.Run, phase string, nValid, nFiles, mutPer int, maxFile int64) []*corpus.Item {
	rr := vk.CaseRNG(r.Seed, 0, phase, 0)
	var base []*corpus.Item
	files := corpus.TestData(drv.RepoDir, maxFile)
	rr.Shuffle(len(files), func(i, j int) { files[i], files[j] = files[j], files[i] })
	// keep at least a few files per kind
	perKind := map[string]int{}
	for _, f := range files {
		if len(base) >= nFiles && perKind[f.Kind] >= 3 {
			continue
		}
		perKind[f.Kind]++
		base = append(base, f)
	}
	base = append(base, c07corpus(r, nValid)...)
	// hand-assembled dynamic-Huffman streams, valid and deliberately invalid
	for i := 0; i < nValid/2; i++ {
		if it := corpus.DynDeflateItem(vk.CaseRNG(r.Seed, 0, phase+"-dyn", int64(i)), i%4); it != nil {
			base = append(base, it)
		}
	}
	var items []*corpus.Item
	for i, b := range base {
		items = append(items, b)
		mr := vk.CaseRNG(r.Seed, 0, phase+"-mut", int64(i))
		for m := 0; m < mutPer; m++ {
			enc, how := corpus.Mutate(mr, b.Enc)
			if mr.Intn(3) == 0 {
				enc, _ = corpus.Mutate(mr, enc)
				how += "+2"
			}
			if len(enc) > 300000 {
				enc = enc[:300000]
			}
			items = append(items, &corpus.Item{Kind: b.Kind, Name: b.Name, Enc: enc, Setting: "mutated:" + how, PClass: b.Setting})
		}
	}
	// cross-format and random inputs for every kind
	for i, k := range allKinds {
		mr := vk.CaseRNG(r.Seed, 0, phase+"-cross", int64(i))
		for j := 0; j < 1+mutPer; j++ {
			src := base[mr.Intn(len(base))]
			enc := src.Enc
			how := "other-format:" + src.Kind
			if j == 0 {
				enc = make([]byte, mr.Intn(600))
				mr.Read(enc)
				how = "random-bytes"
			}
			items = append(items, &corpus.Item{Kind: k, Enc: enc, Setting: how, PClass: "hostile"})
		}
	}
	return items
}

func c03job(rr interface{ Intn(int) int }, it *corpus.Item, mkSplits func(total, pieces int) string) string {
	line := fmt.Sprintf("job=decode kind=%s in=%s cpu=30", it.Kind, it.Path)
	switch rr.Intn(4) {
	case 0: // all at once
	case 1:
		line += fmt.Sprintf(" splits=%d", len(it.Enc)/2)
	case 2:
		if len(it.Enc) <= 3000 {
			line += " splits=" + strings.TrimRight(strings.Repeat("1,", len(it.Enc)), ",")
		} else {
			line += " splits=" + mkSplits(len(it.Enc), 12)
		}
	default:
		line += " splits=" + mkSplits(len(it.Enc), 8)
	}
	if rr.Intn(2) == 0 {
		line += " close=late"
	}
	line += " prefill=" + []string{"00", "ff", "a5", "r7"}[rr.Intn(4)]
	line += " dfill=" + []string{"00", "ff", "a5"}[rr.Intn(3)]
	switch {
	case isHasher(it.Kind):
	case isImage(it.Kind):
		line += " pixfmt=" + []string{"bgra", "native", "bgra64", "bgrapre", "y"}[rr.Intn(5)]
		line += " wb=" + []string{"max", "min"}[rr.Intn(2)]
		line += " maxframes=6"
	case isToken(it.Kind):
		// the documented minimum token buffer length is 2 for cbor, 1 for json
		line += fmt.Sprintf(" tcap=%d", []int{2, 3, 16, 256}[rr.Intn(4)])
	default:
		switch rr.Intn(3) {
		case 0:
			line += " dtotal=1048576"
		case 1:
			line += " dtotal=4096"
		default:
			line += " dtotal=1200000 dcaps=" + mkSplits(70000, 6)
		}
		if it.Kind == "lzma" || it.Kind == "xz" || it.Kind == "lzip" {
			line += []string{" wbfixed=8389000", " wb=min", " wbfixed=70000"}[rr.Intn(3)]
		} else {
			line += " wb=" + []string{"max", "min"}[rr.Intn(2)]
		}
		if rr.Intn(5) == 0 {
			line += " mode=compact sbuf=" + fmt.Sprint([]int{1, 16, 4096}[rr.Intn(3)]) + " dbuf=" + fmt.Sprint([]int{40000, 70000}[rr.Intn(2)])
		}
	}
	// every second job hands the decoder exact-size source allocations (the red
	// zone sits right behind the last supplied byte at every split point)
	if !strings.Contains(line, "mode=compact") && !isHasher(it.Kind) && rr.Intn(2) == 0 {
		line += " salloc=exact"
	}
	return line + "\n"
}

func runC03(r *drv.Run) drv.Spec {
	sp := drv.Spec{
		Level: "exploration",
		Rule: "cases = (decoder or hasher, input: test/data file | reference-encoder output | byte-level mutation of either | other format | random bytes, source split plan, destination capacity plan, closed early/late, work buffer min/max, memory pre-fill) executed on the ASan+UBSan build and the -O2 build (allocator calls intercepted with --wrap) of the C generated from the working tree; " +
			"distinct = (decoder, final status string, whether a suspension was observed) triples",
		Assumptions: []string{"bounded work is decided by a per-job CPU-time budget (30 s of virtual time for inputs <= 300 KB; the step-counting checked build is not built)", "red-zone sanitizers do not see non-adjacent overflows",
			"ample destination = 1 MiB"},
		MinEvals: 500, MinClasses: 40,
	}
	e := newCenv(r, cbuild.VAsan, cbuild.VPlain)
	nValid, nFiles, mutPer := 250, 160, 3
	maxFile := int64(100 << 10)
	if r.Thorough() {
		nValid, nFiles, mutPer = 3000, 100000, 12
		maxFile = 300 << 10
	}
	items := hostileCorpus(r, "c03", nValid, nFiles, mutPer, maxFile)
	if err := corpus.WriteItems(r.Scratch+"/c03", items, "h"); err != nil {
		drv.Fatal("%v", err)
	}
	var jobs []*wd.Job
	for i, it := range items {
		rr := vk.CaseRNG(r.Seed, 0, "c03job", int64(i))
		jobs = append(jobs, &wd.Job{Text: c03job(rr, it, func(t, p int) string { return randSplits(rr, t, p) }), Tag: it})
	}
	for _, variant := range []string{"asan", "plain"} {
		res := e.run(variant, jobs, "c03-"+variant, 3000)
		for _, rs := range res {
			if rs == nil {
				continue
			}
			it := rs.Job.Tag.(*corpus.Item)
			desc := itemDesc(it)
			if len(it.Enc) <= 1<<16 {
				desc["enc_hex"] = hex.EncodeToString(it.Enc)
			}
			if !e.commonMonitors("std-safety", variant, rs, desc) {
				continue
			}
			o := rs.First()
			e.eval(1)
			e.count("calls", wd.Num(o, "calls"))
			susp := wd.Num(o, "short_reads")+wd.Num(o, "short_writes") > 0
			st := wd.Str(o, "status")
			if wd.Str(o, "init") != "" {
				st = "init:" + wd.Str(o, "init")
			}
			if isHasher(it.Kind) {
				st = "hash"
				susp = wd.Num(o, "updates") > 1
			}
			if oc := wd.Str(o, "outcome"); oc != "" && oc != "final" {
				st += "|" + oc
			}
			e.class(fmt.Sprintf("%s|%s|susp=%v", it.Kind, st, susp))
			if variant == "asan" && rs.Idx%211 == 0 {
				e.sample(map[string]interface{}{"item": itemDesc(it), "job": strings.TrimSpace(rs.Job.Text), "result": o})
			}
		}
	}
	// Exhaustive split sweeps with exact-size source allocations: for a few
	// small inputs per decoder EVERY split point is run with the supplied bytes
	// ending exactly at the end of their allocation, so a read past the supplied
	// input is caught by the red zone wherever it happens (the jobs above only
	// put the end of the whole input, or of a random piece, there).
	perKind, maxLen := 3, 500
	if r.Thorough() {
		perKind, maxLen = 40, 3000
	}
	nk := map[string]int{}
	var sjobs []*wd.Job
	// valid inputs first (they reach deepest), shortest first; then as many damaged ones
	cand := append([]*corpus.Item(nil), items...)
	damaged := func(it *corpus.Item) bool {
		return strings.HasPrefix(it.Setting, "mutated") || strings.HasPrefix(it.Setting, "random") || strings.HasPrefix(it.Setting, "other")
	}
	sort.SliceStable(cand, func(i, j int) bool {
		if damaged(cand[i]) != damaged(cand[j]) {
			return !damaged(cand[i])
		}
		return len(cand[i].Enc) < len(cand[j].Enc)
	})
	nd := map[string]int{}
	for _, it := range cand {
		if len(it.Enc) < 8 || len(it.Enc) > maxLen || isHasher(it.Kind) {
			continue
		}
		if damaged(it) {
			if nd[it.Kind] >= perKind {
				continue
			}
			nd[it.Kind]++
		} else {
			if nk[it.Kind] >= perKind {
				continue
			}
			nk[it.Kind]++
		}
		base := fmt.Sprintf("job=sweep axis=src salloc=exact kind=%s in=%s cpu=600 maxframes=4", it.Kind, it.Path)
		if isImage(it.Kind) {
			base += " pixfmt=bgra wb=max"
		} else if isToken(it.Kind) {
			base += " tcap=16"
		} else {
			base += " dtotal=100000" + wbFor(it.Kind)
		}
		sjobs = append(sjobs, &wd.Job{Text: base + "\n", Tag: it})
		if !isImage(it.Kind) && !isToken(it.Kind) {
			sjobs = append(sjobs, fineBothAxesJobs(r, it, len(sjobs))...)
		}
	}
	for _, rs := range e.run("asan", sjobs, "c03-sweep", 3000) {
		if rs == nil {
			continue
		}
		it := rs.Job.Tag.(*corpus.Item)
		desc := itemDesc(it)
		desc["enc_hex"] = hex.EncodeToString(it.Enc)
		if !e.commonMonitors("std-safety", "asan", rs, desc) {
			continue
		}
		o := rs.First()
		if strings.HasPrefix(rs.Job.Text, "job=decode") {
			e.eval(1)
			e.count("fine_both_axes_decodes", 1)
			e.count("fine_both_axes_suspensions", wd.Num(o, "short_reads")+wd.Num(o, "short_writes"))
			e.class(fmt.Sprintf("%s|fine-both|%s", it.Kind, wd.Str(o, "status")))
			continue
		}
		e.eval(wd.Num(o, "runs"))
		e.count("exact_window_sweep_runs", wd.Num(o, "runs"))
		e.class(fmt.Sprintf("%s|sweep-exact|%s", it.Kind, wd.Str(o, "status")))
	}
	return sp
}

// fineBothAxesJobs: both streams in small pieces at once (a suspension for
// want of input while the destination is nearly full, and the other way
// round): four seeded plans for one input, pieces of 1..40 bytes, exact-size
// source windows.
func fineBothAxesJobs(r *drv.Run, it *corpus.Item, salt int) []*wd.Job {
	var out []*wd.Job
	for k := 0; k < 4; k++ {
		fr := vk.CaseRNG(r.Seed, k, "c03fine", int64(salt))
		fine := func(total int) string {
			var ps []string
			for left := total + 8; left > 0; {
				p := 1 + fr.Intn(40)
				ps = append(ps, fmt.Sprint(p))
				left -= p
			}
			return strings.Join(ps, ",")
		}
		dt := 4096
		if it.Payload != nil {
			dt = len(it.Payload) + 64
		}
		line := fmt.Sprintf("job=decode kind=%s in=%s cpu=60 salloc=exact splits=%s dcaps=%s dtotal=%d%s", it.Kind, it.Path, fine(len(it.Enc)), fine(dt), dt, wbFor(it.Kind))
		if k%2 == 1 {
			line += " close=late"
		}
		out = append(out, &wd.Job{Text: line + "\n", Tag: it})
	}
	return out
}
