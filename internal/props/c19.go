package props

import "verif/internal/drv"

func init() {
	goLib("C19", 16, drv.ChildOpts{WallSec: 3000, CPUSec: 6000, Env: []string{"GOGC=300"}, CrashIsViol: true, CrashSigPfx: "crash:"}, drv.Spec{
		Level: "exploration",
		Rule: "cases = sequences of 1-4 Encode calls on one uncompng.Encoder; each image = (type in g8/g16/x8/x16/n8/n16, w, h, stride >= row bytes with PRNG garbage in padding/X channel/tail, pixel pattern); " +
			"sizes aimed with a packing simulator at the 1st..5th stored-block capacity boundary (65480 raw bytes for the first IDAT, 65515 for later ones): last block short of full by 0..14 bytes (IEND fits from slack 12 up) or 1..bpp+3 bytes spilling into the next block, plus 1x1, small, 1xN/Nx1 up to 200000 (thorough: sometimes 10^6) and medium random sizes; " +
			"every written stream is checked by image/png.Decode (bounds, native model, every pixel) and by an own PNG/zlib/stored-deflate walker (chunk order/length/CRC-32, IHDR fields, CMF/FLG, BTYPE=00, LEN/NLEN, BFINAL only on the last block, Adler-32, inflated length, scanline reconstruction vs the input); " +
			"for 1 image in 5 every Write index is made to fail in turn (exhaustive over that image's Write calls) and Encode must return non-nil without panicking; " +
			"distinct = (type | number of stored blocks 1..5+ | end class: last block full-0..13 / tail1..10 / tiny / mid | position in the Encoder's history, 'e' = after a failed Encode | IEND appended or separate Write) tuples measured on streams that passed both oracles, " +
			"plus (type, block index, unit that did not fit at that block boundary: F = filter byte, P<free bytes> = pixel) and (type, Write count, failure mode) tuples",
		Assumptions: []string{
			"image/png of the Go toolchain in use is a standard decoder",
			"IDAT payload limit taken as the 65528 bytes named in the property text",
			"a stream with chunks other than IHDR, IDAT..., IEND, or with bytes after IEND, is reported (the package documents exactly that layout)",
			"a failing io.Writer obeys the io.Writer contract (n < len(p) implies err != nil); the contract-breaking (short, nil) writer only has the no-panic verdict",
			"pix holds at least (h-1)*stride + row bytes; width, height <= 0xFFFFFF (larger is documented as unsupported)",
			"chunk capacities 65480/65515 are used to aim the workload and to label classes only; no verdict depends on them",
		},
		MinEvals: 1000, MinClasses: 150,
	})
}
