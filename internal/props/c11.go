package props

import (
	"fmt"
	"os"
	"os/exec"
	"path/filepath"
	"regexp"
	"strings"
	"sync"

	"verif/internal/drv"
	"verif/internal/vk"
	"verif/internal/wgen"
)

var c11reCrash = regexp.MustCompile(`(?m)^(panic: .*|fatal error: .*|runtime: .*|SIG[A-Z]+: .*)$`)

func init() {
	Table["C11"] = Prop{Run: func(r *drv.Run) drv.Spec {
		// The monitor child (pure Go: a cgo child's address space jumps by
		// 72 MB per new thread, which makes RLIMIT_AS flaky) and the real
		// tools are built side by side from the tree under test.
		var bin string
		var tools *wgen.Tools
		var berr, terr error
		var wg sync.WaitGroup
		wg.Add(2)
		go func() {
			defer wg.Done()
			bin, berr = r.BuildGo("./cmd/vmon", "vmon-nocgo", drv.BuildOpts{Tags: "verif", NoCgo: true})
		}()
		go func() {
			defer wg.Done()
			tools, terr = wgen.BuildTools(r, "", "c11tools")
		}()
		wg.Wait()
		if berr != nil {
			drv.Fatal("%v", berr)
		}
		if terr != nil {
			drv.Fatal("%v", terr)
		}
		// A scratch wuffs root: std copied, then `wuffs gen` makes
		// gen/wuffs/std/*.wuffs (what `use` reads) and gen/c/*.c (what the
		// emitted C of a package #includes).
		root := filepath.Join(r.Scratch, "c11root")
		if err := wgen.PopulateRoot(drv.RepoDir, root, "forward"); err != nil {
			drv.Fatal("populate scratch root: %v", err)
		}
		if out, err := tools.GenAll(root, tools.Env()); err != nil {
			if m := c11reCrash.FindString(out); m != "" {
				// The tool-chain crashed on the unmutated standard library.
				m = regexp.MustCompile(`0x[0-9a-fA-F]+|\d+`).ReplaceAllString(m, "N")
				r.Res.Violations = append(r.Res.Violations, vk.Violation{
					Sig:    "toolchain-crash:wuffs-gen:" + m,
					What:   "`wuffs gen` crashed on the unmutated std: " + m,
					Replay: map[string]interface{}{"command": "wuffs gen (in a scratch root holding a copy of std/)", "output_tail": c11tail(out, 3000)},
				})
				return c11spec()
			}
			drv.Fatal("wuffs gen in the scratch root failed: %v\n%s", err, c11tail(out, 3000))
		}
		// gcc reads ~1.6 MB of base declarations and intrinsics headers for
		// every emitted file; a precompiled wuffs-base.c (built with exactly the
		// macros an emitted per-package file defines before it includes
		// ./wuffs-base.c) makes that three times cheaper. gen/cnopch holds the
		// same files without it: a rejection is confirmed there.
		cdir := filepath.Join(root, "gen", "c")
		nopch := filepath.Join(root, "gen", "cnopch")
		os.MkdirAll(nopch, 0o755)
		if m, _ := filepath.Glob(filepath.Join(cdir, "*.c")); len(m) > 0 {
			for _, f := range m {
				os.Symlink(f, filepath.Join(nopch, filepath.Base(f)))
			}
		}
		pch := exec.Command("gcc", "-x", "c-header", "-w", "-DWUFFS_IMPLEMENTATION", "-DWUFFS_CONFIG__MODULES=", "-DWUFFS_NONMONOLITHIC=",
			"wuffs-base.c", "-o", "wuffs-base.c.gch")
		pch.Dir = cdir
		if out, err := pch.CombinedOutput(); err != nil {
			drv.Logf("no precompiled base header (%v: %s): gcc runs will be slower", err, c11tail(string(out), 300))
			os.Remove(filepath.Join(cdir, "wuffs-base.c.gch"))
		}
		work := filepath.Join(r.Scratch, "c11work")
		os.MkdirAll(work, 0o755)

		// Logical budgets. One text needs milliseconds (the monitor itself
		// enforces 60 s of CPU per text and 60 s / 4 GiB per wuffs-c or gcc
		// run); a whole quick shard needs ~20 s of CPU, a thorough one ~15
		// minutes. The child's RLIMIT_CPU is the backstop behind those.
		cpu := uint64(900)
		if r.Thorough() {
			cpu = 30000
		}
		o := drv.ChildOpts{CPUSec: cpu, WallSec: 7200, CrashIsViol: true, CrashSigPfx: "toolchain-crash:",
			Env: []string{"GOMAXPROCS=2", "GOGC=400", "C11_ROOT=" + root, "C11_TOOLS=" + tools.Dir, "C11_WORK=" + work, "VERIF_REPO=" + drv.RepoDir}}
		// Two rounds, so that a fault that kills a child (stack overflow,
		// out of memory, CPU budget) in the deep-nesting / edge families
		// costs nothing of the mutation families, and vice versa. Both run
		// at once: 2 x 16 children of which at most 16 run at a time.
		var wg2 sync.WaitGroup
		wg2.Add(2)
		go func() { defer wg2.Done(); r.RunShards(bin, "C11D", 16, []string{"C11D"}, o) }()
		go func() { defer wg2.Done(); r.RunShards(bin, "C11", 16, []string{"C11"}, o) }()
		wg2.Wait()
		for i := range r.Res.Violations {
			v := &r.Res.Violations[i]
			if strings.HasPrefix(v.Sig, "toolchain-crash:") && !strings.HasPrefix(v.Sig, "toolchain-crash:wuffs-") {
				// A child killed by a fatal Go error: name the family.
				if m, ok := v.Replay.(map[string]interface{}); ok {
					mark := strings.Fields(fmt.Sprint(m["mark"]))
					if len(mark) == 2 {
						v.Sig = "toolchain-crash:" + mark[0] + ":" + strings.TrimPrefix(v.Sig, "toolchain-crash:")
					}
				}
			}
		}
		return c11spec()
	}}
}

func c11tail(s string, n int) string {
	if len(s) <= n {
		return s
	}
	return "..." + s[len(s)-n:]
}

func c11spec() drv.Spec {
	return drv.Spec{
		Level: "exploration",
		Rule: "texts = every std/*/*.wuffs and hello-wuffs-c/*.wuffs unmutated; ~380 hand-written edge files (legal-but-unusual constructs and the same with operands removed) verbatim and with token edits; " +
			"six small std files cut at every token boundary and inside every token (exhaustive for those files, see trunc_* counters); nesting deepeners (expression / type / block / const-list forms at MaxTypeExprDepth and MaxExprDepth -1, +0, +1, +2, x2, x10, synthesised and in place of an operand of a real function); " +
			"extreme literals, identifiers, strings, comments and widths; random bytes, token soups, damaged and cut files; token-level (delete, duplicate, swap, replace by a token of another or the same kind, insert), " +
			"line-level (delete, duplicate, move, swap) and tree-level (cut/copy/empty/unwrap a balanced bracket group, paste over another or elsewhere, swap function bodies, delete/duplicate declarations, splice functions between files) mutants of every source file, checked together with the unmutated other files of its package. " +
			"Every text: Tokenize, Parse, Render (when cmd/wuffsfmt would render it), Check under recover() and a 60 s CPU budget; accepted packages (within a per-phase budget, all unmutated packages and verbatim edge files always): real `wuffs-c gen`, then `gcc -fsyntax-only -DWUFFS_IMPLEMENTATION` on the emitted C next to the generated base and used packages. " +
			"distinct = (stage reached, error message with quoted text and numbers blanked or leg-2 outcome, mutation family)",
		Assumptions: []string{
			"generated texts are at most 160 KiB (largest std file: 85 KiB); the parser's recursion depth is bounded by the text size only, so much larger texts can exhaust any stack: not claimed",
			"'the formatter' is read as cmd/wuffsfmt's do(): Render runs only on texts that Tokenize and Parse{AllowDoubleUnderscoreNames} accept",
			"check.Check is set up as lang/generate.Do does (nil parse options, one token.Map for the package, `use` read from <scratch root>/gen/wuffs made by the tree's own `wuffs gen`)",
			"hang = more than 60 s of process CPU time for one text in-process (getrusage), or RLIMIT_CPU 60 s for one wuffs-c / gcc run (the slowest text, a 2550-arm else-if chain, needs 2 s on an idle box and 7 s when the box is overloaded); memory = RLIMIT_AS 4 GiB; goroutine stack capped at 512 MiB; never the wall clock",
			"gcc (the installed version, default -std) with -fsyntax-only -w is 'the C compiler'; emitted C identical to the already compiled unmutated package is not compiled again",
			"only a sample of accepted mutants goes through wuffs-c and gcc in the quick tier (counters leg2_skipped_over_budget, gcc_skipped_over_budget)",
		},
		MinEvals: 8000, MinClasses: 150,
	}
}
