package props

import (
	"fmt"
	"strings"

	"verif/internal/drv"
)

// c12StaleSig must equal mon.C12StaleSig.
const c12StaleSig = "dumbindent:section-after-multiline-close"

func init() {
	Table["C12"] = Prop{Run: func(r *drv.Run) drv.Spec {
		// Built without cgo: a cgo child's address space grows by 72 MB (thread
		// stack + glibc arena) whenever the runtime starts a thread, which makes
		// an address-space budget flaky; the pure-Go child's does not.
		bin, err := r.BuildGo("./cmd/vmon", "vmon-nocgo", drv.BuildOpts{Tags: "verif", NoCgo: true})
		if err != nil {
			drv.Fatal("%v", err)
		}
		// Logical budgets: a whole quick shard needs a few CPU seconds and a
		// whole thorough shard a few hundred, one text a few milliseconds and
		// (largest generated C file, 3.5 MB) under 100 MB of address space.
		cpu := uint64(300)
		if r.Thorough() {
			cpu = 6000
		}
		// The address-space budget (1 GiB above what is mapped at start-up) is
		// set by the monitor itself, see mon.c12limitAS.
		o := drv.ChildOpts{CPUSec: cpu, WallSec: 3000, CrashIsViol: true, CrashSigPfx: "crash:", Env: []string{"GOMAXPROCS=4"}}
		r.RunShards(bin, "C12", 16, []string{"C12"}, o)

		// The formatters as commands (several files per invocation, -w / -l / stdin).
		wf, err1 := r.BuildGo("github.com/google/wuffs/cmd/wuffsfmt", "wuffsfmt", drv.BuildOpts{})
		di, err2 := r.BuildGo("github.com/google/wuffs/cmd/dumbindent", "dumbindent", drv.BuildOpts{})
		if err1 != nil || err2 != nil {
			drv.Fatal("building the formatter commands: %v %v", err1, err2)
		}
		oc := o
		oc.Env = append(append([]string{}, o.Env...), "VERIF_WUFFSFMT="+wf, "VERIF_DUMBINDENT="+di)
		r.RunShards(bin, "C12CMD", 8, []string{"C12CMD"}, oc)

		// The text family that the unfixed dumbindent cannot survive runs in
		// children of its own, so that a killed child loses nothing else.
		n0 := len(r.Res.Violations)
		r.RunShards(bin, "C12H", 16, []string{"C12H"}, o)
		for i := n0; i < len(r.Res.Violations); i++ {
			v := &r.Res.Violations[i]
			if !strings.HasPrefix(v.Sig, "crash:") {
				continue
			}
			m, _ := v.Replay.(map[string]interface{})
			mark := fmt.Sprint(m["mark"])
			hung := false
			for _, k := range []string{"out of memory", "cannot allocate memory", "cannot map pages", "failed to reserve", "cpu-budget-exceeded"} {
				hung = hung || strings.Contains(v.Sig, k)
			}
			if strings.HasPrefix(mark, "dumbh ") && hung {
				v.What = "FormatBytes does not terminate (output grows until the address-space or CPU budget is hit): " + v.What
				m["crash_sig"] = v.Sig
				v.Sig = c12StaleSig
			}
		}
		return drv.Spec{
			Level: "exploration",
			Rule: "wuffsfmt cases = every std/hello Wuffs source verbatim, hand-written edge files, and seeded variants (whole file / run or subset of top-level declarations / " +
				"random whole statements deleted / raw line ranges) re-emitted from the token+comment model with random gaps, indentation, trailing blanks, line splits after " +
				"non-terminating tokens, mid-statement and own-line and trailing // comments, line joins with explicit ';', explicit ';' at line ends, re-grouped underscores and " +
				"re-cased hex in numeric literals, added/removed blank lines, CRLF, dropped comments; only sources cmd/wuffsfmt accepts (Tokenize, Parse, Render without error) are judged. " +
				"dumbindent cases = whole generated/hand-written C files, line ranges of them cut to a lexically closed text with re-spaced line ends, and a seeded grammar of C-like lines " +
				"(strings with escapes, char literals, // and /* */ comments and `raw` strings single- and multi-line with code/comments/strings after the closer, preprocessor lines with " +
				"continuations, labels, case, unbalanced braces/parens, blank lines) x {Spaces 1..8, <=0, Tabs, nil}. " +
				"distinct = wfmt|(mutation kind, kind of token left, kind of token right) sites in accepted sources, plus dumb|(lexical-feature set of a line, option) for every line judged",
			Assumptions: []string{
				"'the formatter accepts' is read as cmd/wuffsfmt's do(): Tokenize, parse.Parse{AllowDoubleUnderscoreNames}, render.Render all succeed; tokenizable but unparsable texts are only counted",
				"comments are compared after trimming trailing blanks (Render strips trailing spaces by design; that is a white-space change)",
				"numeric literals are compared after deleting '_' and folding letter case, everything else byte-exact",
				"a C-like text is lexically closed per the monitor's own lexer: //, /* */, \"..\" and '..' with backslash escapes (ending on their line unless the newline is escaped), `..` raw strings as dumbindent defines them",
				"texts given to dumbindent never start with a blank line: dumbindent drops leading blank lines on purpose (its test 'Leading blank lines'), which the property's normalisation does not forgive",
				"termination is judged by the child's RLIMIT_CPU / RLIMIT_AS(1 GiB), never by wall clock",
			},
			MinEvals: 8000, MinClasses: 300,
		}
	}}
}
