package props

import (
	"bytes"
	"fmt"
	"os"
	"os/exec"
	"path/filepath"
	"sort"
	"strings"
	"sync"

	"verif/internal/drv"
	"verif/internal/vk"
	"verif/internal/wgen"
)

// C20: deterministic compilation; committed release == generated release;
// data.go == gen.go(axioms.md); file enumeration sorted; hook neutrality.

func init() {
	Table["C20"] = Prop{PreferShm: true, Run: runC20}
}

type c20rec struct {
	mu sync.Mutex
	r  *drv.Run
}

func (c *c20rec) viol(sig, what string, detail map[string]interface{}) {
	c.mu.Lock()
	c.r.Res.Violations = append(c.r.Res.Violations, vk.Violation{Sig: sig, What: what, Replay: detail})
	c.mu.Unlock()
}
func (c *c20rec) class(s string) {
	c.mu.Lock()
	if c.r.Res.Classes == nil {
		c.r.Res.Classes = map[string]int64{}
	}
	c.r.Res.Classes[s]++
	c.r.Res.Evaluations++
	c.mu.Unlock()
}
func (c *c20rec) count(s string, n int64) {
	c.mu.Lock()
	if c.r.Res.Counters == nil {
		c.r.Res.Counters = map[string]int64{}
	}
	c.r.Res.Counters[s] += n
	c.mu.Unlock()
}
func (c *c20rec) sample(v interface{}) {
	c.mu.Lock()
	if len(c.r.Res.Samples) < 6 {
		c.r.Res.Samples = append(c.r.Res.Samples, v)
	}
	c.mu.Unlock()
}

func runC20(r *drv.Run) drv.Spec {
	sp := drv.Spec{
		Level: "exploration",
		Rule: "cases = (package or whole-std, environment variant) pairs: each runs the real wuffs-c / wuffs gen built from the working tree and compares SHA-256 of the output with the baseline run; variants = repeated fresh processes (new map seeds), GOMAXPROCS 1/16, GOGC=1, altered environment, other working directory, std copied to tmpfs in forward/reverse/shuffled creation order, verif-tagged tool with the run-time switch off; plus regenerated release vs committed snapshot, gen.go output vs committed data.go, and the argv a shim named wuffs-c receives from `wuffs gen`; " +
			"distinct = (package, variant) pairs actually compared",
		Assumptions: []string{"the tools are single-threaded, so scheduling variation is limited to GOMAXPROCS/GC settings", "git metadata is absent in the scratch root; version 0.0.0 output does not depend on it"},
		MinEvals:    50, MinClasses: 50,
	}
	c := &c20rec{r: r}
	repo := drv.RepoDir
	plain, err := wgen.BuildTools(r, "", "tools-plain")
	if err != nil {
		drv.Fatal("%v", err)
	}
	tagged, err := wgen.BuildTools(r, "verif", "tools-verif")
	if err != nil {
		drv.Fatal("%v", err)
	}

	// --- whole-std generation under different directory creation orders, with a logging shim.
	shimDir := filepath.Join(r.Scratch, "tools-shim")
	os.MkdirAll(shimDir, 0o755)
	shimLog := filepath.Join(r.Scratch, "shim.log")
	os.Symlink(filepath.Join(plain.Dir, "wuffs"), filepath.Join(shimDir, "wuffs"))
	shim := fmt.Sprintf("#!/bin/sh\n{ printf 'ARGV'; for a in \"$@\"; do printf '\\t%%s' \"$a\"; done; printf '\\n'; } >> \"$WUFFS_SHIM_LOG\"\nexec %s \"$@\"\n", filepath.Join(plain.Dir, "wuffs-c"))
	os.WriteFile(filepath.Join(shimDir, "wuffs-c"), []byte(shim), 0o755)
	shimTools := &wgen.Tools{Dir: shimDir}

	orders := []string{"forward", "reverse", fmt.Sprintf("shuffle:%d", r.Seed)}
	if r.Thorough() {
		for i := 1; i <= 5; i++ {
			orders = append(orders, fmt.Sprintf("shuffle:%d", r.Seed*1000+int64(i)))
		}
	}
	type rootRes struct {
		order string
		root  string
		tree  map[string]string
		argv  []string
	}
	results := make([]*rootRes, len(orders))
	var wg sync.WaitGroup
	for i, ord := range orders {
		wg.Add(1)
		go func(i int, ord string) {
			defer wg.Done()
			root := filepath.Join(r.Scratch, fmt.Sprintf("root%d", i))
			if err := wgen.PopulateRoot(repo, root, ord); err != nil {
				r.Inconclusive("populate: " + err.Error())
				return
			}
			log := fmt.Sprintf("%s.%d", shimLog, i)
			out, err := shimTools.GenAll(root, shimTools.Env("WUFFS_SHIM_LOG="+log))
			if err != nil {
				c.viol("gen:wuffs-gen-failed", fmt.Sprintf("`wuffs gen` failed on a copy of std (order %s): %v\n%s", ord, err, tailStr(out, 1500)), map[string]interface{}{"order": ord})
				return
			}
			rr := &rootRes{order: ord, root: root, tree: map[string]string{}}
			for k, v := range wgen.HashTree(filepath.Join(root, "gen")) {
				rr.tree["gen/"+k] = v
			}
			for k, v := range wgen.HashTree(filepath.Join(root, "release")) {
				rr.tree["release/"+k] = v
			}
			if b, err := os.ReadFile(log); err == nil {
				for _, ln := range strings.Split(strings.TrimSpace(string(b)), "\n") {
					rr.argv = append(rr.argv, strings.ReplaceAll(ln, root, "<root>"))
				}
			}
			results[i] = rr
		}(i, ord)
	}
	wg.Wait()
	var base *rootRes
	for _, rr := range results {
		if rr == nil {
			continue
		}
		if base == nil {
			base = rr
			c.count("files_generated_per_root", int64(len(rr.tree)))
			continue
		}
		c.class("whole-std|order=" + strings.SplitN(rr.order, ":", 2)[0])
		for k, v := range base.tree {
			if rr.tree[k] != v {
				a, _ := os.ReadFile(filepath.Join(base.root, k))
				b, _ := os.ReadFile(filepath.Join(rr.root, k))
				c.viol("nondeterministic:whole-std:directory-order", fmt.Sprintf("%s differs between std populated in %s and %s order: %s", k, base.order, rr.order, wgen.FirstDiff(a, b)),
					map[string]interface{}{"file": k, "orders": []string{base.order, rr.order}})
				break
			}
		}
		if len(rr.tree) != len(base.tree) {
			c.viol("nondeterministic:whole-std:file-set", fmt.Sprintf("different set of generated files: %d vs %d", len(base.tree), len(rr.tree)), nil)
		}
		if strings.Join(rr.argv, "\n") != strings.Join(base.argv, "\n") {
			c.viol("nondeterministic:wuffs-gen:argv-order", fmt.Sprintf("`wuffs gen` passed different argument lists to wuffs-c for %s vs %s directory order", base.order, rr.order),
				map[string]interface{}{"first": firstDiffLine(base.argv, rr.argv)})
		}
	}
	if base == nil {
		return sp
	}
	// file arguments must be sorted
	ngen := 0
	for _, ln := range base.argv {
		f := strings.Split(ln, "\t")
		if len(f) < 3 || (f[1] != "gen" && f[1] != "genrelease") {
			continue
		}
		var files []string
		for _, a := range f[2:] {
			if strings.HasSuffix(a, ".wuffs") || strings.HasSuffix(a, ".c") {
				files = append(files, a)
			}
		}
		ngen++
		if !sort.StringsAreSorted(files) {
			c.viol("unsorted-file-enumeration:"+f[1], fmt.Sprintf("`wuffs gen` passed an unsorted file list to wuffs-c %s: %v", f[1], files), map[string]interface{}{"argv": ln})
		}
	}
	c.count("shim_gen_invocations_checked", int64(ngen))
	if ngen == 0 {
		r.Inconclusive("the wuffs-c shim recorded no invocation")
	}
	c.sample(map[string]interface{}{"shim_argv_example": firstN(base.argv, 2)})

	// regenerated release vs committed snapshot
	{
		gen, _ := os.ReadFile(filepath.Join(base.root, "release", "c", "wuffs-unsupported-snapshot.c"))
		com, err := os.ReadFile(filepath.Join(repo, "release", "c", "wuffs-unsupported-snapshot.c"))
		c.class("release-vs-committed")
		if err != nil || !bytes.Equal(gen, com) {
			c.viol("release-differs-from-generated", "regenerating std with the repository's compiler does not reproduce release/c/wuffs-unsupported-snapshot.c: "+wgen.FirstDiff(com, gen), nil)
		}
		c.count("release_bytes_compared", int64(len(gen)))
	}

	// gen.go -> data.go
	{
		d := filepath.Join(r.Scratch, "axgen")
		os.MkdirAll(d, 0o755)
		for _, f := range []string{"gen.go", "axioms.md"} {
			b, _ := os.ReadFile(filepath.Join(repo, "lang", "check", f))
			os.WriteFile(filepath.Join(d, f), b, 0o644)
		}
		cmd := exec.Command("go", "run", "gen.go")
		cmd.Dir = d
		cmd.Env = drv.GoEnv("GOFLAGS=")
		out, err := cmd.CombinedOutput()
		c.class("axiom-table-vs-committed")
		if err != nil {
			c.viol("axiom-generator-failed", fmt.Sprintf("go run gen.go failed: %v %s", err, tailStr(string(out), 800)), nil)
		} else {
			gen, _ := os.ReadFile(filepath.Join(d, "data.go"))
			com, _ := os.ReadFile(filepath.Join(repo, "lang", "check", "data.go"))
			if !bytes.Equal(gen, com) {
				c.viol("axiom-table-differs-from-generated", "lang/check/data.go is not what gen.go produces from axioms.md: "+wgen.FirstDiff(com, gen), nil)
			}
		}
	}

	// --- per-package determinism under environment variants.
	pkgs := wgen.StdPackages(repo)
	reps := 4
	if r.Thorough() {
		reps = 20
	}
	type variant struct {
		name  string
		tools *wgen.Tools
		env   []string
		cwd   string
		root  string // which populated root supplies the files
	}
	otherCwd := filepath.Join(base.root, "std")
	var variants []variant
	for i := 0; i < reps; i++ {
		variants = append(variants, variant{name: fmt.Sprintf("repeat%d", i), tools: plain, cwd: base.root})
	}
	variants = append(variants,
		variant{name: "GOMAXPROCS=1", tools: plain, env: []string{"GOMAXPROCS=1"}, cwd: base.root},
		variant{name: "GOMAXPROCS=16", tools: plain, env: []string{"GOMAXPROCS=16"}, cwd: base.root},
		variant{name: "GOGC=1", tools: plain, env: []string{"GOGC=1"}, cwd: base.root},
		variant{name: "env-noise", tools: plain, env: []string{"LANG=tr_TR.UTF-8", "LC_ALL=C", "TZ=Pacific/Kiritimati", "HOME=/nonexistent", "TMPDIR=/nonexistent", fmt.Sprintf("NOISE_%d=%d", r.Seed, r.Seed)}, cwd: base.root},
		variant{name: "other-cwd", tools: plain, cwd: otherCwd},
		variant{name: "verif-tag-switch-off", tools: tagged, cwd: base.root},
	)
	sem := make(chan struct{}, 16)
	for _, p := range pkgs {
		wg.Add(1)
		go func(p string) {
			defer wg.Done()
			sem <- struct{}{}
			defer func() { <-sem }()
			files := wgen.ListWuffs(filepath.Join(base.root, "std", p))
			ref, stderr, err := plain.GenPackage(p, files, base.root, plain.Env())
			if err != nil {
				c.viol("gen:package-failed:"+p, fmt.Sprintf("wuffs-c gen %s failed: %v %s", p, err, tailStr(stderr, 800)), nil)
				return
			}
			c.count("bytes_per_baseline_total", int64(len(ref)))
			for _, v := range variants {
				out, stderr, err := v.tools.GenPackage(p, files, v.cwd, v.tools.Env(v.env...))
				c.class(p + "|" + strings.TrimRight(v.name, "0123456789"))
				if err != nil {
					c.viol("nondeterministic:package:"+strings.TrimRight(v.name, "0123456789")+":failed", fmt.Sprintf("wuffs-c gen %s under %s failed: %v %s", p, v.name, err, tailStr(stderr, 500)), map[string]interface{}{"package": p, "variant": v.name})
					continue
				}
				if !bytes.Equal(out, ref) {
					c.viol("nondeterministic:package:"+strings.TrimRight(v.name, "0123456789"), fmt.Sprintf("wuffs-c gen %s differs under %s: %s", p, v.name, wgen.FirstDiff(ref, out)),
						map[string]interface{}{"package": p, "variant": v.name, "files": files})
				}
			}
			// the per-package output must also be what `wuffs gen` stored
			stored, _ := os.ReadFile(filepath.Join(base.root, "gen", "c", "wuffs-std-"+p+".c"))
			if len(stored) > 0 && !bytes.Equal(stored, ref) {
				c.viol("nondeterministic:package:vs-wuffs-gen", fmt.Sprintf("wuffs-c gen %s differs from what `wuffs gen` stored: %s", p, wgen.FirstDiff(stored, ref)), map[string]interface{}{"package": p})
			}
			if p == "adler32" {
				c.sample(map[string]interface{}{"package": p, "files": files, "sha256": wgen.Hash(ref), "variants": len(variants)})
			}
		}(p)
	}
	wg.Wait()
	c20generated(r, c, plain, base.root, reps)
	// generated programs of every scenario family through repeated wuffs-c runs
	runProgs(r, "c20")
	c20versioned(r, c, plain)
	return sp
}

// c20generated covers packages beyond std and histories of tool runs:
// (a) synthetic multi-struct packages (std has one struct per package, so the
// struct/status/const ordering paths of the generator only vary here) compiled
// repeatedly in fresh processes; (b) `wuffs gen` after an earlier run with
// other flags in the same tree must equal a fresh run (no stale reuse).
var c20generated = func(r *drv.Run, c *c20rec, plain *wgen.Tools, root string, reps int) {
	npk := 12
	if r.Thorough() {
		npk = 200
	}
	dir := filepath.Join(r.Scratch, "multipkg")
	os.MkdirAll(dir, 0o755)
	var wg sync.WaitGroup
	sem := make(chan struct{}, 16)
	for i := 0; i < npk; i++ {
		wg.Add(1)
		go func(i int) {
			defer wg.Done()
			sem <- struct{}{}
			defer func() { <-sem }()
			rr := vk.CaseRNG(r.Seed, 0, "c20multi", int64(i))
			var sb strings.Builder
			ns := 2 + rr.Intn(6)
			nst := rr.Intn(5)
			for k := 0; k < nst; k++ {
				fmt.Fprintf(&sb, "pub status \"#%s error %d\"\n", []string{"bad", "odd", "late", "cold"}[rr.Intn(4)], k)
			}
			for k := 0; k < 1+rr.Intn(4); k++ {
				fmt.Fprintf(&sb, "pri const K%d_%d : base.u32 = %d\n", i, k, rr.Intn(1000))
			}
			names := []string{"alpha", "beta", "gamma", "delta", "epsilon", "zeta", "eta", "theta"}
			rr.Shuffle(len(names), func(a, b int) { names[a], names[b] = names[b], names[a] })
			for k := 0; k < ns; k++ {
				classy := []string{"", "?"}[rr.Intn(2)]
				fmt.Fprintf(&sb, "\npub struct %s%s(\n        f%d : base.u32,\n        g : array[%d] base.u8,\n)\n", names[k], classy, k, 1+rr.Intn(9))
				fmt.Fprintf(&sb, "\npub func %s.get() base.u32 {\n    return this.f%d\n}\n", names[k], k)
				if classy == "?" {
					fmt.Fprintf(&sb, "\npub func %s.run?(src: base.io_reader) {\n    this.g[0] = args.src.read_u8?()\n}\n", names[k])
				}
			}
			file := filepath.Join(dir, fmt.Sprintf("m%d.wuffs", i))
			os.WriteFile(file, []byte(sb.String()), 0o644)
			pkg := fmt.Sprintf("m%d", i)
			ref, _, err := plain.GenPackage(pkg, []string{file}, root, plain.Env())
			if err != nil {
				c.count("multi_struct_packages_rejected", 1)
				return
			}
			n := 2 * reps
			for k := 0; k < n; k++ {
				env := plain.Env()
				if k%2 == 1 {
					env = plain.Env(fmt.Sprintf("GOMAXPROCS=%d", 1+k%8))
				}
				out, _, err := plain.GenPackage(pkg, []string{file}, root, env)
				if err != nil || !bytes.Equal(out, ref) {
					c.viol("nondeterministic:multi-struct-package", fmt.Sprintf("wuffs-c gen of a %d-struct package differs between runs: %s", ns, wgen.FirstDiff(ref, out)),
						map[string]interface{}{"source": sb.String()})
					break
				}
			}
			c.class(fmt.Sprintf("multi-struct|structs=%d|statuses=%d", ns, nst))
			c.count("multi_struct_packages", 1)
		}(i)
	}
	wg.Wait()

	// (b) tool-run histories in one tree
	for hi, first := range [][]string{{"gen", "-genlinenum"}, {"gen"}} {
		h := filepath.Join(r.Scratch, fmt.Sprintf("hist%d", hi))
		if err := wgen.PopulateRoot(drv.RepoDir, h, "forward"); err != nil {
			continue
		}
		run := func(args ...string) error {
			cmd := exec.Command(filepath.Join(plain.Dir, "wuffs"), args...)
			cmd.Dir = h
			cmd.Env = plain.Env()
			_, err := cmd.CombinedOutput()
			return err
		}
		if err := run(first...); err != nil {
			continue
		}
		if err := run("gen"); err != nil {
			c.viol("gen:second-run-failed", "`wuffs gen` failed when run after `wuffs "+strings.Join(first, " ")+"` in the same tree", nil)
			continue
		}
		got, _ := os.ReadFile(filepath.Join(h, "release", "c", "wuffs-unsupported-snapshot.c"))
		want, _ := os.ReadFile(filepath.Join(root, "release", "c", "wuffs-unsupported-snapshot.c"))
		c.class("history|" + strings.Join(first, "") + "-then-gen")
		if !bytes.Equal(got, want) {
			c.viol("stale-output:after-"+strings.Join(first, ""), "`wuffs gen` after `wuffs "+strings.Join(first, " ")+"` in the same tree differs from a fresh `wuffs gen`: "+wgen.FirstDiff(want, got), nil)
		}
	}
}

func tailStr(s string, n int) string {
	if len(s) <= n {
		return s
	}
	return "..." + s[len(s)-n:]
}

func firstN(s []string, n int) []string {
	if len(s) < n {
		return s
	}
	return s[:n]
}

func firstDiffLine(a, b []string) string {
	for i := 0; i < len(a) && i < len(b); i++ {
		if a[i] != b[i] {
			return a[i] + "  VS  " + b[i]
		}
	}
	return fmt.Sprintf("lengths %d vs %d", len(a), len(b))
}

// c20versioned: a versioned release (`wuffs gen -version=X.Y.Z`) embeds the
// commit date and count that it asks git for. In a scratch tree that is a git
// repository whose only commit was made at 23:30 UTC, the release must be the
// same bytes whatever TZ / LANG / HOME the process inherits (a local-time date
// would fall on the next or previous calendar day).
func c20versioned(r *drv.Run, c *c20rec, plain *wgen.Tools) {
	if _, err := exec.LookPath("git"); err != nil {
		c.count("versioned_release_skipped_no_git", 1)
		return
	}
	h := filepath.Join(r.Scratch, "versioned")
	if err := wgen.PopulateRoot(drv.RepoDir, h, "forward"); err != nil {
		return
	}
	git := func(args ...string) error {
		cmd := exec.Command("git", args...)
		cmd.Dir = h
		cmd.Env = append(os.Environ(), "GIT_AUTHOR_DATE=2024-03-10T23:30:00Z", "GIT_COMMITTER_DATE=2024-03-10T23:30:00Z",
			"GIT_AUTHOR_NAME=v", "GIT_AUTHOR_EMAIL=v@example.invalid", "GIT_COMMITTER_NAME=v", "GIT_COMMITTER_EMAIL=v@example.invalid", "TZ=UTC")
		_, err := cmd.CombinedOutput()
		return err
	}
	if git("init", "-q") != nil || git("add", "-A") != nil || git("commit", "-q", "-m", "scratch") != nil {
		c.count("versioned_release_skipped_git_failed", 1)
		return
	}
	var ref []byte
	refEnv := ""
	for _, ev := range [][]string{{}, {"TZ=UTC"}, {"TZ=XXX-14"}, {"TZ=XXX+12"}, {"TZ=Pacific/Kiritimati", "LANG=de_DE.UTF-8", "LC_ALL=C"}, {"HOME=/nonexistent", "TZ=America/Los_Angeles"}} {
		cmd := exec.Command(filepath.Join(plain.Dir, "wuffs"), "gen", "-version=0.4.0", "std/crc32")
		cmd.Dir = h
		var env []string
		for _, e := range plain.Env() {
			if !strings.HasPrefix(e, "TZ=") {
				env = append(env, e)
			}
		}
		cmd.Env = append(env, ev...)
		if out, err := cmd.CombinedOutput(); err != nil {
			c.count("versioned_release_gen_failed", 1)
			_ = out
			return
		}
		got, err := os.ReadFile(filepath.Join(h, "release", "c", "wuffs-v0.4.c"))
		if err != nil {
			c.count("versioned_release_missing", 1)
			return
		}
		c.class("versioned-release|" + strings.Join(ev, ","))
		if ref == nil {
			ref, refEnv = got, strings.Join(ev, ",")
			continue
		}
		if !bytes.Equal(got, ref) {
			c.viol("nondeterministic:versioned-release:environment", fmt.Sprintf("`wuffs gen -version=0.4.0` of one commit differs between environments [%s] and [%s]: %s", refEnv, strings.Join(ev, ","), wgen.FirstDiff(ref, got)), nil)
			return
		}
	}
}
