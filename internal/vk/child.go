package vk

import (
	"encoding/json"
	"flag"
	"fmt"
	"os"
	"strconv"
	"strings"
)

// ChildMain parses the standard child flags and returns the recorder and the
// remaining positional arguments. If a replay file selects another shard the
// process writes an empty result and exits.
func ChildMain(args []string) (*Rec, []string) {
	fs := flag.NewFlagSet("child", flag.ExitOnError)
	tier := fs.String("tier", "quick", "")
	seed := fs.Int64("seed", 1, "")
	shard := fs.Int("shard", 0, "")
	nshards := fs.Int("nshards", 1, "")
	out := fs.String("out", "result.json", "")
	mark := fs.String("mark", "", "")
	cpu := fs.Uint64("cpu", 0, "")
	as := fs.Uint64("as", 0, "")
	replay := fs.String("replay", "", "")
	var pos []string
	// allow positionals before flags
	for len(args) > 0 && !strings.HasPrefix(args[0], "-") {
		pos = append(pos, args[0])
		args = args[1:]
	}
	fs.Parse(args)
	pos = append(pos, fs.Args()...)
	SetLimits(*cpu, *as)
	rc := NewRec(*seed, *shard, *nshards, *tier, *out, *mark)
	if *replay != "" {
		b, err := os.ReadFile(*replay)
		if err != nil {
			fmt.Fprintln(os.Stderr, "replay:", err)
			os.Exit(3)
		}
		var rp struct {
			Detail map[string]interface{} `json:"detail"`
		}
		json.Unmarshal(b, &rp)
		rc.ReplayDetail = rp.Detail
		sh, ok := num(rp.Detail["shard"])
		if ok && int(sh) != *shard {
			rc.Finish()
			os.Exit(0)
		}
		if ph, ok := rp.Detail["phase"].(string); ok {
			rc.OnlyPhase = ph
		}
		if ix, ok := num(rp.Detail["idx"]); ok {
			rc.Only = ix
		} else if mk, ok := rp.Detail["mark"].(string); ok {
			// crash attribution mark: "<phase> <idx>"
			f := strings.Fields(mk)
			if len(f) == 2 {
				rc.OnlyPhase = f[0]
				rc.Only, _ = strconv.ParseInt(f[1], 10, 64)
			}
		}
	}
	return rc, pos
}

func num(v interface{}) (int64, bool) {
	switch x := v.(type) {
	case float64:
		return int64(x), true
	case int64:
		return x, true
	case int:
		return int64(x), true
	}
	return 0, false
}
