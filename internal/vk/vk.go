// Package vk is the small kit shared by the driver (cmd/vcheck) and by the
// monitor children (cmd/vmon and the per-property helper programs): result
// records, deterministic per-case PRNGs, crash attribution marks.
package vk

import (
	"encoding/binary"
	"encoding/json"
	"fmt"
	"hash/fnv"
	"math/rand"
	"os"
	"runtime"
	"sort"
	"strings"
	"sync"
	"syscall"
)

// Violation is one refuting observation.
type Violation struct {
	Sig    string      `json:"sig"`  // signature used to match known findings
	What   string      `json:"what"` // human-readable description
	Replay interface{} `json:"replay,omitempty"`
}

// Result is what one child reports.
type Result struct {
	Evaluations  int64            `json:"evaluations"`
	Classes      map[string]int64 `json:"classes"`
	Samples      []interface{}    `json:"samples"`
	Counters     map[string]int64 `json:"counters"`
	Violations   []Violation      `json:"violations"`
	Inconclusive []string         `json:"inconclusive"`
}

// Rec is the thread-safe recorder a monitor writes to.
type Rec struct {
	mu           sync.Mutex
	r            Result
	maxSamples   int
	maxViol      int
	markF        *os.File
	Seed         int64
	Shard        int
	NShards      int
	Tier         string
	Only         int64 // >=0: run only this case index (replay)
	OnlyPhase    string
	ReplayDetail map[string]interface{}
	OutPath      string
}

func NewRec(seed int64, shard, nshards int, tier, out, mark string) *Rec {
	rc := &Rec{Seed: seed, Shard: shard, NShards: nshards, Tier: tier, OutPath: out, Only: -1,
		maxSamples: 6, maxViol: 20}
	rc.r.Classes = map[string]int64{}
	rc.r.Counters = map[string]int64{}
	if mark != "" {
		f, err := os.OpenFile(mark, os.O_CREATE|os.O_RDWR|os.O_TRUNC, 0o644)
		if err == nil {
			rc.markF = f
		}
	}
	return rc
}

func (rc *Rec) Thorough() bool { return rc.Tier == "thorough" }

// N picks the per-shard case count for the tier.
func (rc *Rec) N(quick, thorough int) int {
	n := quick
	if rc.Thorough() {
		n = thorough
	}
	per := (n + rc.NShards - 1) / rc.NShards
	if per < 1 {
		per = 1
	}
	return per
}

// Mark records that case idx of phase ph is about to run, so that a fatal
// (unrecoverable) crash of the child can be attributed to it by the driver.
func (rc *Rec) Mark(ph string, idx int64) {
	if rc.markF == nil {
		return
	}
	var b [64]byte
	n := copy(b[:], fmt.Sprintf("%s %d\n", ph, idx))
	for i := n; i < len(b); i++ {
		b[i] = ' '
	}
	rc.markF.WriteAt(b[:], 0)
}

func (rc *Rec) Eval(n int64) {
	rc.mu.Lock()
	rc.r.Evaluations += n
	rc.mu.Unlock()
}

func (rc *Rec) Class(c string) {
	rc.mu.Lock()
	rc.r.Classes[c]++
	rc.mu.Unlock()
}

func (rc *Rec) Count(name string, n int64) {
	rc.mu.Lock()
	rc.r.Counters[name] += n
	rc.mu.Unlock()
}

func (rc *Rec) Max(name string, v int64) {
	rc.mu.Lock()
	if v > rc.r.Counters[name] {
		rc.r.Counters[name] = v
	}
	rc.mu.Unlock()
}

func (rc *Rec) Sample(v interface{}) {
	rc.mu.Lock()
	if len(rc.r.Samples) < rc.maxSamples {
		rc.r.Samples = append(rc.r.Samples, v)
	}
	rc.mu.Unlock()
}

func (rc *Rec) NSamples() int {
	rc.mu.Lock()
	defer rc.mu.Unlock()
	return len(rc.r.Samples)
}

func (rc *Rec) Violate(sig, what string, replay interface{}) {
	rc.mu.Lock()
	if len(rc.r.Violations) < rc.maxViol {
		rc.r.Violations = append(rc.r.Violations, Violation{sig, what, replay})
	} else {
		rc.r.Counters["violations_dropped"]++
	}
	rc.mu.Unlock()
}

func (rc *Rec) NViolations() int {
	rc.mu.Lock()
	defer rc.mu.Unlock()
	return len(rc.r.Violations)
}

func (rc *Rec) Inconclusive(why string) {
	rc.mu.Lock()
	rc.r.Inconclusive = append(rc.r.Inconclusive, why)
	rc.mu.Unlock()
}

func (rc *Rec) Finish() error {
	rc.mu.Lock()
	defer rc.mu.Unlock()
	b, err := json.Marshal(&rc.r)
	if err != nil {
		return err
	}
	tmp := rc.OutPath + ".tmp"
	if err := os.WriteFile(tmp, b, 0o644); err != nil {
		return err
	}
	return os.Rename(tmp, rc.OutPath)
}

// CaseRNG returns a PRNG that depends only on (seed, shard, phase, idx), so a
// single case can be regenerated for replay.
func CaseRNG(seed int64, shard int, phase string, idx int64) *rand.Rand {
	h := fnv.New64a()
	var b [8]byte
	binary.LittleEndian.PutUint64(b[:], uint64(seed))
	h.Write(b[:])
	binary.LittleEndian.PutUint64(b[:], uint64(shard))
	h.Write(b[:])
	h.Write([]byte(phase))
	binary.LittleEndian.PutUint64(b[:], uint64(idx))
	h.Write(b[:])
	return rand.New(rand.NewSource(int64(h.Sum64())))
}

func (rc *Rec) RNG(phase string, idx int64) *rand.Rand {
	return CaseRNG(rc.Seed, rc.Shard, phase, idx)
}

// Skip reports whether case idx should be skipped (replay of one case).
func (rc *Rec) Skip(idx int64) bool { return rc.Only >= 0 && idx != rc.Only }

// Merge folds src into dst.
func Merge(dst *Result, src *Result) {
	dst.Evaluations += src.Evaluations
	if dst.Classes == nil {
		dst.Classes = map[string]int64{}
	}
	if dst.Counters == nil {
		dst.Counters = map[string]int64{}
	}
	for k, v := range src.Classes {
		dst.Classes[k] += v
	}
	for k, v := range src.Counters {
		if len(k) > 4 && k[:4] == "max_" {
			if v > dst.Counters[k] {
				dst.Counters[k] = v
			}
		} else {
			dst.Counters[k] += v
		}
	}
	for _, s := range src.Samples {
		if len(dst.Samples) < 8 {
			dst.Samples = append(dst.Samples, s)
		}
	}
	dst.Violations = append(dst.Violations, src.Violations...)
	dst.Inconclusive = append(dst.Inconclusive, src.Inconclusive...)
}

func SortedKeys(m map[string]int64) []string {
	ks := make([]string, 0, len(m))
	for k := range m {
		ks = append(ks, k)
	}
	sort.Strings(ks)
	return ks
}

// SetLimits applies self-imposed resource limits (0 = leave alone).
func SetLimits(cpuSec, asBytes uint64) {
	if cpuSec > 0 {
		syscall.Setrlimit(syscall.RLIMIT_CPU, &syscall.Rlimit{Cur: cpuSec, Max: cpuSec + 2})
	}
	if asBytes > 0 {
		syscall.Setrlimit(syscall.RLIMIT_AS, &syscall.Rlimit{Cur: asBytes, Max: asBytes})
	}
}

// Trunc shortens a byte string for samples.
func Trunc(b []byte, n int) string {
	if len(b) <= n {
		return fmt.Sprintf("%q", b)
	}
	return fmt.Sprintf("%q...(%d bytes)", b[:n], len(b))
}

// ViolateCase records a violation of case (phase, idx) with replay details.
func (rc *Rec) ViolateCase(sig, what, phase string, idx int64, extra map[string]interface{}) {
	m := map[string]interface{}{"shard": rc.Shard, "nshards": rc.NShards, "phase": phase, "idx": idx}
	for k, v := range extra {
		m[k] = v
	}
	rc.Violate(sig, what, m)
}

// SkipCase reports whether (phase, idx) is excluded by a replay selection.
func (rc *Rec) SkipCase(phase string, idx int64) bool {
	if rc.Only < 0 {
		return false
	}
	return idx != rc.Only || (rc.OnlyPhase != "" && phase != rc.OnlyPhase)
}

// PanicSig turns a recovered panic value into a short signature: the message
// with numbers blanked plus the innermost github.com/google/wuffs frame.
func PanicSig(rec interface{}) string {
	msg := fmt.Sprint(rec)
	out := make([]byte, 0, len(msg))
	prevN := false
	for i := 0; i < len(msg) && len(out) < 100; i++ {
		c := msg[i]
		if c >= '0' && c <= '9' {
			if !prevN {
				out = append(out, 'N')
			}
			prevN = true
			continue
		}
		prevN = false
		out = append(out, c)
	}
	frame := ""
	pcs := make([]uintptr, 64)
	n := runtime.Callers(2, pcs)
	frames := runtime.CallersFrames(pcs[:n])
	for {
		f, more := frames.Next()
		if strings.HasPrefix(f.Function, "github.com/google/wuffs/") {
			frame = strings.TrimPrefix(f.Function, "github.com/google/wuffs/")
			break
		}
		if !more {
			break
		}
	}
	return "panic:" + string(out) + "@" + frame
}
