// Package wgen drives the real wuffs tool-chain (cmd/wuffs, cmd/wuffs-c) built
// from the tree under test, always into scratch directories.
package wgen

import (
	"bytes"
	"crypto/sha256"
	"encoding/hex"
	"fmt"
	"io"
	"math/rand"
	"os"
	"os/exec"
	"path/filepath"
	"sort"
	"strings"

	"verif/internal/drv"
)

// Tools is a directory holding freshly built wuffs, wuffs-c (and a shim).
type Tools struct {
	Dir  string
	Tags string
}

// BuildTools builds cmd/wuffs and cmd/wuffs-c from the tree under test.
func BuildTools(r *drv.Run, tags, name string) (*Tools, error) {
	dir := filepath.Join(r.Scratch, name)
	if err := os.MkdirAll(dir, 0o755); err != nil {
		return nil, err
	}
	for _, c := range []string{"wuffs", "wuffs-c"} {
		out, err := r.BuildGo("github.com/google/wuffs/cmd/"+c, filepath.Join(name, c), drv.BuildOpts{Tags: tags})
		if err != nil {
			return nil, err
		}
		_ = out
	}
	return &Tools{Dir: dir, Tags: tags}, nil
}

// Env returns an environment with the tools first on PATH.
func (t *Tools) Env(extra ...string) []string {
	var env []string
	for _, e := range os.Environ() {
		if strings.HasPrefix(e, "PATH=") || strings.HasPrefix(e, "WUFFS_VERIF") {
			continue
		}
		env = append(env, e)
	}
	env = append(env, "PATH="+t.Dir+":"+os.Getenv("PATH"))
	env = append(env, extra...)
	return env
}

// ListWuffs returns the sorted .wuffs files of a std package directory.
func ListWuffs(dir string) []string {
	ents, _ := os.ReadDir(dir)
	var fs []string
	for _, e := range ents {
		if !e.IsDir() && strings.HasSuffix(e.Name(), ".wuffs") {
			fs = append(fs, filepath.Join(dir, e.Name()))
		}
	}
	sort.Strings(fs)
	return fs
}

// StdPackages lists the package directories under <repo>/std that hold .wuffs files.
func StdPackages(repo string) []string {
	ents, _ := os.ReadDir(filepath.Join(repo, "std"))
	var ps []string
	for _, e := range ents {
		if e.IsDir() && len(ListWuffs(filepath.Join(repo, "std", e.Name()))) > 0 {
			ps = append(ps, e.Name())
		}
	}
	sort.Strings(ps)
	return ps
}

// GenPackage runs `wuffs-c gen -package_name <pkg> files...` and returns stdout.
func (t *Tools) GenPackage(pkg string, files []string, cwd string, env []string) ([]byte, string, error) {
	args := append([]string{"gen", "-package_name", pkg}, files...)
	cmd := exec.Command(filepath.Join(t.Dir, "wuffs-c"), args...)
	cmd.Dir = cwd
	cmd.Env = env
	var out, errb bytes.Buffer
	cmd.Stdout = &out
	cmd.Stderr = &errb
	err := cmd.Run()
	return out.Bytes(), errb.String(), err
}

// PopulateRoot creates a scratch wuffs root holding a copy of <repo>/std whose
// directory entries are created in the given order ("forward", "reverse" or
// "shuffle:<seed>"), which on tmpfs controls readdir order.
func PopulateRoot(repo, root, order string) error {
	if err := os.MkdirAll(root, 0o755); err != nil {
		return err
	}
	if err := os.WriteFile(filepath.Join(root, "wuffs-root-directory.txt"), []byte("scratch root\n"), 0o644); err != nil {
		return err
	}
	var files []string
	err := filepath.Walk(filepath.Join(repo, "std"), func(p string, info os.FileInfo, err error) error {
		if err != nil {
			return err
		}
		if !info.IsDir() && strings.HasSuffix(p, ".wuffs") {
			rel, _ := filepath.Rel(repo, p)
			files = append(files, rel)
		}
		return nil
	})
	if err != nil {
		return err
	}
	sort.Strings(files)
	switch {
	case order == "reverse":
		for i, j := 0, len(files)-1; i < j; i, j = i+1, j-1 {
			files[i], files[j] = files[j], files[i]
		}
	case strings.HasPrefix(order, "shuffle:"):
		var seed int64
		fmt.Sscanf(order, "shuffle:%d", &seed)
		rr := rand.New(rand.NewSource(seed))
		rr.Shuffle(len(files), func(i, j int) { files[i], files[j] = files[j], files[i] })
	}
	for _, rel := range files {
		dst := filepath.Join(root, rel)
		if err := os.MkdirAll(filepath.Dir(dst), 0o755); err != nil {
			return err
		}
		if err := copyFile(filepath.Join(repo, rel), dst); err != nil {
			return err
		}
	}
	return nil
}

func copyFile(src, dst string) error {
	in, err := os.Open(src)
	if err != nil {
		return err
	}
	defer in.Close()
	out, err := os.Create(dst)
	if err != nil {
		return err
	}
	if _, err := io.Copy(out, in); err != nil {
		out.Close()
		return err
	}
	return out.Close()
}

// GenAll runs `wuffs gen` (all of base + std/...) inside root. It returns the
// combined output of the tool.
func (t *Tools) GenAll(root string, env []string) (string, error) {
	cmd := exec.Command(filepath.Join(t.Dir, "wuffs"), "gen")
	cmd.Dir = root
	cmd.Env = env
	var out bytes.Buffer
	cmd.Stdout = &out
	cmd.Stderr = &out
	err := cmd.Run()
	return out.String(), err
}

// HashFile returns the hex SHA-256 of a file ("" if unreadable).
func HashFile(p string) string {
	b, err := os.ReadFile(p)
	if err != nil {
		return ""
	}
	return Hash(b)
}

func Hash(b []byte) string {
	h := sha256.Sum256(b)
	return hex.EncodeToString(h[:])
}

// HashTree hashes every regular file under dir (relative path -> sha).
func HashTree(dir string) map[string]string {
	m := map[string]string{}
	filepath.Walk(dir, func(p string, info os.FileInfo, err error) error {
		if err == nil && !info.IsDir() {
			rel, _ := filepath.Rel(dir, p)
			m[rel] = HashFile(p)
		}
		return nil
	})
	return m
}

// FirstDiff describes where two byte strings first differ.
func FirstDiff(a, b []byte) string {
	n := len(a)
	if len(b) < n {
		n = len(b)
	}
	i := 0
	for i < n && a[i] == b[i] {
		i++
	}
	line := 1 + bytes.Count(a[:i], []byte("\n"))
	ctx := func(x []byte) string {
		lo := i - 40
		if lo < 0 {
			lo = 0
		}
		hi := i + 40
		if hi > len(x) {
			hi = len(x)
		}
		return fmt.Sprintf("%q", x[lo:hi])
	}
	return fmt.Sprintf("lengths %d vs %d, first difference at byte %d (line %d): %s vs %s", len(a), len(b), i, line, ctx(a), ctx(b))
}
