// Package corpus builds decoder inputs: reference-encoder output over payload
// classes (for the agreement properties), files from /repo/test/data, and
// byte-level / structure-aware mutations (for the robustness properties).
// Everything is derived from a seeded PRNG.
package corpus

import (
	"bytes"
	"compress/flate"
	"compress/gzip"
	"compress/lzw"
	"compress/zlib"
	"encoding/binary"
	"fmt"
	"hash/crc32"
	"image"
	"image/color"
	"image/gif"
	"image/png"
	"math/rand"
	"os"
	"os/exec"
	"path/filepath"
	"sort"
	"strings"
)

// Item is one decoder input.
type Item struct {
	Kind    string // wdrive kind (gzip, png, crc32, ...)
	Name    string
	Enc     []byte
	Payload []byte // expected decoded bytes / hashed bytes (nil when unknown)
	Setting string // encoder setting
	PClass  string // payload class
	Feature string // stream feature confirmed by scanning (may be "")
	Pix     *Pix   // expected pixels for image items
	Valid   bool   // produced by a reference encoder (or a known-good file)
	Path    string // file path once written
}

// Pix is the expected decoded image: BGRA non-premultiplied, 8 or 16 bits per channel.
type Pix struct {
	W, H   int
	Depth  int // 8 or 16
	BGRA   []byte
	Frames int
}

// Payload classes -------------------------------------------------------

type Payload struct {
	Class string
	B     []byte
}

var text = []byte("It was the best of times, it was the worst of times, it was the age of wisdom, it was the age of foolishness, it was the epoch of belief, it was the epoch of incredulity, ")

// MakePayload builds one payload of the named class.
func MakePayload(r *rand.Rand, class string) Payload {
	var b []byte
	switch class {
	case "empty":
	case "one":
		b = []byte{byte(r.Intn(256))}
	case "tiny":
		b = make([]byte, 2+r.Intn(30))
		r.Read(b)
	case "text":
		n := 100 + r.Intn(6000)
		for len(b) < n {
			k := r.Intn(len(text))
			b = append(b, text[k:]...)
		}
		b = b[:n]
	case "random":
		b = make([]byte, 50+r.Intn(5000))
		r.Read(b)
	case "runs":
		n := 200 + r.Intn(20000)
		for len(b) < n {
			c := byte(r.Intn(4) * 85)
			k := 1 + r.Intn(700)
			for i := 0; i < k; i++ {
				b = append(b, c)
			}
		}
	case "ff":
		b = bytes.Repeat([]byte{0xFF}, 1+r.Intn(9000))
	case "window": // repeats at distance exactly 32768 (and just below)
		blk := make([]byte, 32768)
		r.Read(blk)
		b = append(b, blk...)
		b = append(b, blk[:4000+r.Intn(4000)]...)
		b = append(b, blk[1:2000]...)
	case "big": // > 64 KiB, mixed
		n := 66000 + r.Intn(60000)
		for len(b) < n {
			switch r.Intn(3) {
			case 0:
				k := r.Intn(len(text))
				b = append(b, text[k:]...)
			case 1:
				t := make([]byte, 1+r.Intn(300))
				r.Read(t)
				b = append(b, t...)
			default:
				if len(b) > 100 {
					o := r.Intn(len(b) - 50)
					b = append(b, b[o:o+50]...)
				}
			}
		}
		b = b[:n]
	case "farrepeat": // an incompressible block repeated at one far distance: every match uses the same (high) distance code
		l := []int{24577, 32768, 30000, 16385, 24576, 8193}[r.Intn(6)] + r.Intn(3)
		if l > 32768 {
			l = 32768
		}
		blk := make([]byte, l)
		r.Read(blk)
		for k := 0; k < 2+r.Intn(2); k++ {
			b = append(b, blk...)
		}
		b = b[:len(b)-r.Intn(100)]
	case "sandwich": // compressible, then > 64 KiB incompressible, then mildly compressible noise: LZMA2 / deflate switch to stored chunks and back
		n1, n2, n3 := 20000+r.Intn(30000), 70000+r.Intn(80000), 30000+r.Intn(30000)
		for len(b) < n1 {
			k := r.Intn(len(text))
			b = append(b, text[k:]...)
		}
		b = b[:n1]
		mid := make([]byte, n2)
		r.Read(mid)
		b = append(b, mid...)
		for i := 0; i < n3; i++ {
			c := byte(r.Intn(256))
			if r.Intn(3) != 0 {
				c &= 0x1F // fewer significant bits: compressible, but with little match structure
			}
			b = append(b, c|byte(r.Intn(2))<<7)
		}
	case "multiblock": // several hundred KB of mixed content: 4+ bzip2 -1 blocks, several 64 KiB deflate/xz units
		n := 330000 + r.Intn(150000)
		for len(b) < n {
			switch r.Intn(3) {
			case 0:
				k := r.Intn(len(text))
				b = append(b, text[k:]...)
			case 1:
				t := make([]byte, 1+r.Intn(600))
				r.Read(t)
				b = append(b, t...)
			default:
				if len(b) > 100 {
					o := r.Intn(len(b) - 50)
					b = append(b, b[o:o+50]...)
				}
			}
		}
		b = b[:n]
	case "hugeff": // long runs of 0xFF/0xFE: accumulator-overflow territory for Adler-32 style sums
		n := 700000 + r.Intn(600000)
		b = bytes.Repeat([]byte{0xFF}, n)
		if r.Intn(3) == 0 {
			for i := 0; i < n; i += 1 + r.Intn(5000) {
				b[i] = 0xFE
			}
		}
	case "lowentropy":
		b = make([]byte, 100+r.Intn(8000))
		for i := range b {
			b[i] = "ab"[r.Intn(2)]
		}
	}
	return Payload{class, b}
}

var PayloadClasses = []string{"empty", "one", "tiny", "text", "random", "runs", "ff", "window", "big", "lowentropy", "farrepeat"}

// Encoders ----------------------------------------------------------------

func deflateEnc(p []byte, level int, flushEvery int, r *rand.Rand) []byte {
	var buf bytes.Buffer
	w, _ := flate.NewWriter(&buf, level)
	if flushEvery <= 0 {
		w.Write(p)
	} else {
		for q := p; len(q) > 0; {
			n := 1 + r.Intn(flushEvery)
			if n > len(q) {
				n = len(q)
			}
			w.Write(q[:n])
			w.Flush()
			q = q[n:]
		}
	}
	w.Close()
	return buf.Bytes()
}

func levelName(l int) string {
	switch l {
	case flate.HuffmanOnly:
		return "huffman-only"
	case flate.NoCompression:
		return "stored"
	case flate.DefaultCompression:
		return "default"
	}
	return fmt.Sprintf("level%d", l)
}

var flateLevels = []int{flate.HuffmanOnly, flate.DefaultCompression, 0, 1, 2, 3, 4, 5, 6, 7, 8, 9}

// FlateFamily returns deflate, zlib and gzip encodings of a payload.
func FlateFamily(r *rand.Rand, p Payload) []*Item {
	var out []*Item
	level := flateLevels[r.Intn(len(flateLevels))]
	flush := 0
	if r.Intn(4) == 0 {
		flush = 1 + r.Intn(2000)
	}
	setting := levelName(level)
	if flush > 0 {
		setting += "+flush"
	}
	raw := deflateEnc(p.B, level, flush, r)
	feat := ScanDeflate(raw)
	out = append(out, &Item{Kind: "deflate", Enc: raw, Payload: p.B, Setting: setting, PClass: p.Class, Feature: feat, Valid: true})
	{
		var buf bytes.Buffer
		w, _ := zlib.NewWriterLevel(&buf, level)
		w.Write(p.B)
		w.Close()
		out = append(out, &Item{Kind: "zlib", Enc: buf.Bytes(), Payload: p.B, Setting: setting, PClass: p.Class, Feature: ScanDeflate(buf.Bytes()[2:]), Valid: true})
	}
	{
		var buf bytes.Buffer
		w, _ := gzip.NewWriterLevel(&buf, level)
		hdr := ""
		switch r.Intn(4) {
		case 0:
			w.Name = "file name.txt"
			hdr = "+name"
		case 1:
			w.Comment = "a comment"
			w.Extra = []byte{1, 2, 3, 4, 5}
			hdr = "+comment+extra"
		}
		w.Write(p.B)
		w.Close()
		out = append(out, &Item{Kind: "gzip", Enc: buf.Bytes(), Payload: p.B, Setting: setting + hdr, PClass: p.Class, Valid: true})
	}
	return out
}

// LZWItem encodes with compress/lzw in GIF order (LSB) at literal width 8,
// which is the wuffs lzw decoder's default.
func LZWItem(r *rand.Rand, p Payload) *Item {
	var buf bytes.Buffer
	w := lzw.NewWriter(&buf, lzw.LSB, 8)
	w.Write(p.B)
	w.Close()
	return &Item{Kind: "lzw", Enc: buf.Bytes(), Payload: p.B, Setting: "lsb8", PClass: p.Class, Valid: true}
}

func findTool(name string) string {
	if p, err := exec.LookPath(name); err == nil {
		return p
	}
	for _, d := range []string{"/usr/bin", "/bin", "/root/miniconda/bin", "/usr/local/bin"} {
		p := filepath.Join(d, name)
		if _, err := os.Stat(p); err == nil {
			return p
		}
	}
	return ""
}

func pipeTool(tool string, args []string, in []byte) ([]byte, error) {
	cmd := exec.Command(tool, args...)
	cmd.Stdin = bytes.NewReader(in)
	var out, errb bytes.Buffer
	cmd.Stdout = &out
	cmd.Stderr = &errb
	if err := cmd.Run(); err != nil {
		return nil, fmt.Errorf("%s %v: %v %s", tool, args, err, errb.String())
	}
	return out.Bytes(), nil
}

// MaxXzPreset bounds the xz preset ToolItems picks (preset 0 = 256 KiB dictionary … 6 = 8 MiB).
var MaxXzPreset = 6

// ToolItems encodes with the system bzip2 and xz tools.
func ToolItems(r *rand.Rand, p Payload) ([]*Item, error) {
	var out []*Item
	if bz := findTool("bzip2"); bz != "" {
		lvl := 1 + r.Intn(9)
		if p.Class == "multiblock" {
			lvl = 1 + r.Intn(2) // 100k / 200k blocks: the stream has several
		}
		enc, err := pipeTool(bz, []string{fmt.Sprintf("-%d", lvl), "-c"}, p.B)
		if err != nil {
			return nil, err
		}
		out = append(out, &Item{Kind: "bzip2", Enc: enc, Payload: p.B, Setting: fmt.Sprintf("-%d", lvl), PClass: p.Class, Valid: true})
	} else {
		return nil, fmt.Errorf("bzip2 tool not found")
	}
	if xz := findTool("xz"); xz != "" {
		preset := r.Intn(MaxXzPreset + 1) // presets 0..6: dictionaries up to 8 MiB
		check := []string{"none", "crc32", "crc64", "sha256"}[r.Intn(4)]
		args := []string{"-T1", "--format=xz", fmt.Sprintf("-%d", preset), "--check=" + check, "-c"}
		setting := fmt.Sprintf("xz-%d-%s", preset, check)
		if r.Intn(3) == 0 {
			args = append(args, "--block-size=4096")
			setting += "-multiblock"
		}
		enc, err := pipeTool(xz, args, p.B)
		if err != nil {
			return nil, err
		}
		out = append(out, &Item{Kind: "xz", Enc: enc, Payload: p.B, Setting: setting, PClass: p.Class, Valid: true})
		enc2, err := pipeTool(xz, []string{"-T1", "--format=lzma", fmt.Sprintf("-%d", preset), "-c"}, p.B)
		if err != nil {
			return nil, err
		}
		out = append(out, &Item{Kind: "lzma", Enc: enc2, Payload: p.B, Setting: fmt.Sprintf("lzma-%d", preset), PClass: p.Class, Valid: true})
	} else {
		return nil, fmt.Errorf("xz tool not found")
	}
	return out, nil
}

// SmallDictItems encodes a long periodic payload (maximum-length matches at
// every alignment) with a 4 KiB LZMA dictionary, as .lzma and as .xz: the
// decoder's dictionary ring wraps every 4096 bytes, so the seams of its
// history handling are crossed thousands of times.
func SmallDictItems(r *rand.Rand) ([]*Item, error) {
	xz := findTool("xz")
	if xz == "" {
		return nil, fmt.Errorf("xz tool not found")
	}
	var b []byte
	if k := r.Intn(3); k < 2 {
		n := 400000 + r.Intn(1200000)
		period := 1 + r.Intn(300)
		if k == 1 { // matches at distances just below the dictionary size
			period = 3000 + r.Intn(1097)
			n = 30000 + r.Intn(90000)
		}
		unit := make([]byte, period)
		r.Read(unit)
		for len(b) < n {
			b = append(b, unit...)
			if r.Intn(40) == 0 { // an occasional literal shifts the alignment of the following matches
				b = append(b, byte(r.Intn(256)))
			}
		}
		b = b[:n]
	} else {
		// incompressible data except that, in every 4096-byte stretch, the 273
		// bytes (the maximum match length) starting at the LAST ring slot, or one
		// of its neighbours, re-appear a few hundred to a few thousand bytes later,
		// followed by a fresh literal: maximum-length matches whose source
		// straddles the wrap-around point of the 4 KiB dictionary ring
		n := 4096 * (8 + r.Intn(24))
		b = make([]byte, n)
		r.Read(b)
		for k := 1; 4096*(k+1) < n; k++ {
			src := 4096*k - 1 - r.Intn(3)*r.Intn(2) // mostly exactly the last slot
			g := 100 + r.Intn(3200)
			q := src + 273 + g
			if q+274 < 4096*(k+1)-4 {
				copy(b[q:q+273], b[src:src+273])
			}
		}
	}
	var out []*Item
	enc, err := pipeTool(xz, []string{"-T1", "--format=lzma", "--lzma1=dict=4KiB,nice=273", "-c"}, b)
	if err != nil {
		return nil, err
	}
	out = append(out, &Item{Kind: "lzma", Enc: enc, Payload: b, Setting: "lzma-dict4k", PClass: "periodic", Valid: true})
	enc2, err := pipeTool(xz, []string{"-T1", "--format=xz", "--lzma2=dict=4KiB,nice=273", "--check=crc32", "-c"}, b)
	if err != nil {
		return nil, err
	}
	out = append(out, &Item{Kind: "xz", Enc: enc2, Payload: b, Setting: "xz-dict4k", PClass: "periodic", Valid: true})
	return out, nil
}

// PNGWithTextChunks returns the PNG with tEXt / iTXt / eXIf chunks inserted
// (where: 0 before the first IDAT, 1 after the last IDAT, 2 both).
func PNGWithTextChunks(png []byte, where int) []byte {
	chunk := func(typ string, data []byte) []byte {
		var b bytes.Buffer
		binary.Write(&b, binary.BigEndian, uint32(len(data)))
		b.WriteString(typ)
		b.Write(data)
		binary.Write(&b, binary.BigEndian, crc32.ChecksumIEEE(append([]byte(typ), data...)))
		return b.Bytes()
	}
	meta := append(chunk("tEXt", []byte("Title\x00verif")), chunk("iTXt", []byte("Comment\x00\x00\x00\x00\x00hello"))...)
	meta = append(meta, chunk("eXIf", []byte("MM\x00\x2A\x00\x00\x00\x08\x00\x00"))...)
	var out []byte
	out = append(out, png[:8]...)
	seenIDAT, done := false, false
	for p := 8; p+12 <= len(png); {
		n := int(binary.BigEndian.Uint32(png[p:]))
		typ := string(png[p+4 : p+8])
		end := p + 12 + n
		if end > len(png) {
			break
		}
		if typ == "IDAT" && !seenIDAT {
			seenIDAT = true
			if where == 0 || where == 2 {
				out = append(out, meta...)
			}
		}
		if typ == "IEND" && !done && (where == 1 || where == 2) {
			out = append(out, meta...)
			done = true
		}
		out = append(out, png[p:end]...)
		p = end
	}
	return out
}

// GIFNoPaletteItem is a single-frame GIF from GIFItem with every colour table
// removed (no Global Color Table, no Local Color Table): legal, decoders fall
// back to a default palette. With transparent it also declares a transparent
// colour index. The item carries no expected pixels (Pix is nil).
func GIFNoPaletteItem(r *rand.Rand, transparent bool) *Item {
	for try := 0; try < 20; try++ {
		it := GIFItem(r)
		if it == nil || it.Pix.Frames != 1 {
			continue
		}
		b := it.Enc
		if len(b) < 13 {
			continue
		}
		out := append([]byte{}, b[:13]...)
		p := 13
		if b[10]&0x80 != 0 {
			p += 3 << (uint(b[10]&7) + 1)
			out[10] &^= 0x87 // no global colour table
		}
		if transparent {
			out = append(out, 0x21, 0xF9, 0x04, 0x01, 0x00, 0x00, byte(r.Intn(4)), 0x00)
		}
		ok := false
		for p < len(b) {
			switch b[p] {
			case 0x2C: // image descriptor
				if p+10 > len(b) {
					p = len(b)
					break
				}
				d := append([]byte{}, b[p:p+10]...)
				q := p + 10
				if d[9]&0x80 != 0 {
					q += 3 << (uint(d[9]&7) + 1)
					d[9] &^= 0x87 // no local colour table either
				}
				out = append(out, d...)
				out = append(out, b[q:]...) // LZW minimum code size, data sub-blocks, trailer
				ok = q < len(b)
				p = len(b)
			case 0x21: // extension: copy (the encoder's own graphic control extension is dropped when we add ours)
				q := p + 2
				for q < len(b) && b[q] != 0 {
					q += int(b[q]) + 1
				}
				q++
				if q > len(b) {
					p = len(b)
					break
				}
				if !(transparent && p+1 < len(b) && b[p+1] == 0xF9) {
					out = append(out, b[p:q]...)
				}
				p = q
			default:
				p = len(b)
			}
		}
		if !ok {
			continue
		}
		setting := "no-colour-table"
		if transparent {
			setting += "+transparent-index"
		}
		return &Item{Kind: "gif", Enc: out, Setting: setting, PClass: "frames1", Valid: true}
	}
	return nil
}

// HashItems: the payload itself is the input of each hasher.
func HashItems(p Payload) []*Item {
	var out []*Item
	for _, k := range []string{"crc32", "crc64", "adler32", "sha256"} {
		out = append(out, &Item{Kind: k, Enc: p.B, Payload: p.B, Setting: "hash", PClass: p.Class, Valid: true})
	}
	return out
}

// Images ------------------------------------------------------------------

func put16(b []byte, v uint16) { b[0], b[1] = byte(v), byte(v>>8) }

// PNGItem encodes a random image with image/png.
func PNGItem(r *rand.Rand) *Item {
	w := 1 + r.Intn(33)
	h := 1 + r.Intn(20)
	if r.Intn(6) == 0 {
		w, h = 1+r.Intn(200), 1+r.Intn(60)
	}
	kind := r.Intn(7)
	pattern := r.Intn(4)
	val := func(x, y, c int) uint16 {
		switch pattern {
		case 0:
			return uint16(r.Intn(65536))
		case 1:
			return uint16((x*977 + y*131 + c*7919) & 0xFFFF)
		case 2:
			return uint16(((x + y) * 2048) & 0xFFFF)
		default:
			if (x+y)%2 == 0 {
				return 0xFFFF
			}
			return 0
		}
	}
	pix := &Pix{W: w, H: h, Depth: 8, Frames: 1}
	var img image.Image
	name := ""
	set8 := func(x, y int, R, G, B, A uint8) {
		o := (y*w + x) * 4
		pix.BGRA[o], pix.BGRA[o+1], pix.BGRA[o+2], pix.BGRA[o+3] = B, G, R, A
	}
	set16 := func(x, y int, R, G, B, A uint16) {
		o := (y*w + x) * 8
		put16(pix.BGRA[o:], B)
		put16(pix.BGRA[o+2:], G)
		put16(pix.BGRA[o+4:], R)
		put16(pix.BGRA[o+6:], A)
	}
	switch kind {
	case 0:
		name = "gray8"
		m := image.NewGray(image.Rect(0, 0, w, h))
		pix.BGRA = make([]byte, w*h*4)
		for y := 0; y < h; y++ {
			for x := 0; x < w; x++ {
				v := uint8(val(x, y, 0) >> 8)
				m.SetGray(x, y, color.Gray{v})
				set8(x, y, v, v, v, 255)
			}
		}
		img = m
	case 1:
		name = "gray16"
		m := image.NewGray16(image.Rect(0, 0, w, h))
		pix.Depth = 16
		pix.BGRA = make([]byte, w*h*8)
		for y := 0; y < h; y++ {
			for x := 0; x < w; x++ {
				v := val(x, y, 0)
				m.SetGray16(x, y, color.Gray16{v})
				set16(x, y, v, v, v, 0xFFFF)
			}
		}
		img = m
	case 2, 3:
		name = "nrgba8"
		opaque := kind == 3
		if opaque {
			name = "rgb8"
		}
		m := image.NewNRGBA(image.Rect(0, 0, w, h))
		pix.BGRA = make([]byte, w*h*4)
		for y := 0; y < h; y++ {
			for x := 0; x < w; x++ {
				R, G, B, A := uint8(val(x, y, 0)>>8), uint8(val(x, y, 1)>>8), uint8(val(x, y, 2)>>8), uint8(val(x, y, 3)>>8)
				if opaque {
					A = 255
				}
				m.SetNRGBA(x, y, color.NRGBA{R, G, B, A})
				set8(x, y, R, G, B, A)
			}
		}
		img = m
	case 4, 5:
		name = "nrgba16"
		opaque := kind == 5
		if opaque {
			name = "rgb16"
		}
		m := image.NewNRGBA64(image.Rect(0, 0, w, h))
		pix.Depth = 16
		pix.BGRA = make([]byte, w*h*8)
		for y := 0; y < h; y++ {
			for x := 0; x < w; x++ {
				R, G, B, A := val(x, y, 0), val(x, y, 1), val(x, y, 2), val(x, y, 3)
				if opaque {
					A = 0xFFFF
				}
				m.SetNRGBA64(x, y, color.NRGBA64{R, G, B, A})
				set16(x, y, R, G, B, A)
			}
		}
		img = m
	default:
		ncol := []int{2, 4, 16, 200, 256}[r.Intn(5)]
		name = fmt.Sprintf("pal%d", ncol)
		pal := make(color.Palette, ncol)
		trans := r.Intn(2) == 0
		for i := range pal {
			a := uint8(255)
			if trans && i%3 == 0 {
				a = uint8(r.Intn(256))
			}
			pal[i] = color.NRGBA{uint8(r.Intn(256)), uint8(r.Intn(256)), uint8(r.Intn(256)), a}
		}
		if trans {
			name += "+trns"
		}
		m := image.NewPaletted(image.Rect(0, 0, w, h), pal)
		pix.BGRA = make([]byte, w*h*4)
		for y := 0; y < h; y++ {
			for x := 0; x < w; x++ {
				i := int(val(x, y, 0)) % ncol
				m.SetColorIndex(x, y, uint8(i))
				c := pal[i].(color.NRGBA)
				set8(x, y, c.R, c.G, c.B, c.A)
			}
		}
		img = m
	}
	lvl := []png.CompressionLevel{png.DefaultCompression, png.NoCompression, png.BestSpeed, png.BestCompression}[r.Intn(4)]
	var buf bytes.Buffer
	enc := png.Encoder{CompressionLevel: lvl}
	enc.Encode(&buf, img)
	return &Item{Kind: "png", Enc: buf.Bytes(), Setting: fmt.Sprintf("%s/lvl%d", name, lvl), PClass: fmt.Sprintf("w%dmod8=%d", wclass(w), w%8), Pix: pix, Valid: true}
}

func wclass(w int) int {
	switch {
	case w <= 8:
		return 8
	case w <= 33:
		return 33
	}
	return 200
}

// GIFItem encodes a (possibly multi-frame, full-canvas, opaque) GIF.
func GIFItem(r *rand.Rand) *Item {
	w, h := 1+r.Intn(40), 1+r.Intn(30)
	nframes := 1
	if r.Intn(3) == 0 {
		nframes = 2 + r.Intn(3)
	}
	g := &gif.GIF{}
	var last *image.Paletted
	setting := ""
	for f := 0; f < nframes; f++ {
		ncol := []int{2, 4, 8, 32, 256}[r.Intn(5)]
		pal := make(color.Palette, ncol)
		for i := range pal {
			pal[i] = color.RGBA{uint8(r.Intn(256)), uint8(r.Intn(256)), uint8(r.Intn(256)), 255}
		}
		m := image.NewPaletted(image.Rect(0, 0, w, h), pal)
		pat := r.Intn(3)
		for i := range m.Pix {
			switch pat {
			case 0:
				m.Pix[i] = uint8(r.Intn(ncol))
			case 1:
				m.Pix[i] = uint8((i / 3) % ncol)
			default:
				m.Pix[i] = uint8(((i % w) + (i / w)) % ncol)
			}
		}
		g.Image = append(g.Image, m)
		g.Delay = append(g.Delay, r.Intn(10))
		g.Disposal = append(g.Disposal, gif.DisposalNone)
		last = m
		setting = fmt.Sprintf("pal%d", ncol)
	}
	if nframes > 1 {
		setting += fmt.Sprintf("+%dframes+localpalettes", nframes)
	}
	var buf bytes.Buffer
	if err := gif.EncodeAll(&buf, g); err != nil {
		return nil
	}
	pix := &Pix{W: w, H: h, Depth: 8, Frames: nframes, BGRA: make([]byte, w*h*4)}
	for i, ci := range last.Pix {
		c := last.Palette[ci].(color.RGBA)
		pix.BGRA[i*4], pix.BGRA[i*4+1], pix.BGRA[i*4+2], pix.BGRA[i*4+3] = c.B, c.G, c.R, 255
	}
	return &Item{Kind: "gif", Enc: buf.Bytes(), Setting: setting, PClass: fmt.Sprintf("frames%d", nframes), Pix: pix, Valid: true}
}

// Test data -----------------------------------------------------------------

var extKind = map[string]string{
	".gz": "gzip", ".zlib": "zlib", ".deflate": "deflate", ".bz2": "bzip2", ".xz": "xz", ".lzma": "lzma", ".lz": "lzip",
	".png": "png", ".gif": "gif", ".bmp": "bmp", ".jpeg": "jpeg", ".jpg": "jpeg", ".webp": "webp", ".qoi": "qoi", ".tga": "targa",
	".nie": "nie", ".wbmp": "wbmp", ".pkm": "etc2", ".handsum": "handsum", ".th": "thumbhash", ".thumbhash": "thumbhash",
	".pbm": "netpbm", ".pgm": "netpbm", ".ppm": "netpbm", ".pam": "netpbm", ".json": "json", ".cbor": "cbor", ".giflzw": "lzw",
}

// TestData lists files under <repo>/test/data (size-limited), mapped to decoder kinds.
func TestData(repo string, maxSize int64) []*Item {
	var out []*Item
	root := filepath.Join(repo, "test", "data")
	filepath.Walk(root, func(p string, info os.FileInfo, err error) error {
		if err != nil || info.IsDir() || info.Size() > maxSize {
			return nil
		}
		k, ok := extKind[strings.ToLower(filepath.Ext(p))]
		if !ok {
			return nil
		}
		b, err := os.ReadFile(p)
		if err != nil {
			return nil
		}
		rel, _ := filepath.Rel(root, p)
		out = append(out, &Item{Kind: k, Name: rel, Enc: b, Setting: "testdata", PClass: "file", Path: p})
		return nil
	})
	sort.Slice(out, func(i, j int) bool { return out[i].Name < out[j].Name })
	return out
}

// Mutations -----------------------------------------------------------------

// Mutate returns a corrupted copy of b and the mutation kind.
func Mutate(r *rand.Rand, b []byte) ([]byte, string) {
	c := append([]byte(nil), b...)
	if len(c) == 0 {
		return []byte{byte(r.Intn(256))}, "grow-empty"
	}
	switch r.Intn(9) {
	case 0:
		n := 1 + r.Intn(3)
		for i := 0; i < n; i++ {
			c[r.Intn(len(c))] ^= 1 << uint(r.Intn(8))
		}
		return c, "bitflip"
	case 1:
		return c[:r.Intn(len(c))], "truncate"
	case 2:
		i := r.Intn(len(c))
		c[i] = byte(r.Intn(256))
		return c, "byte"
	case 3:
		i := r.Intn(len(c))
		c[i] = []byte{0, 0xFF, 0x7F, 0x80, 1}[r.Intn(5)]
		return c, "edge-byte"
	case 4: // head region (headers)
		lim := len(c)
		if lim > 64 {
			lim = 64
		}
		c[r.Intn(lim)] = byte(r.Intn(256))
		return c, "header-byte"
	case 5:
		i, j := r.Intn(len(c)), r.Intn(len(c))
		if i > j {
			i, j = j, i
		}
		return append(c[:i], c[j:]...), "delete-span"
	case 6:
		i := r.Intn(len(c))
		n := 1 + r.Intn(40)
		ins := make([]byte, n)
		r.Read(ins)
		return append(c[:i], append(ins, c[i:]...)...), "insert"
	case 7:
		i, j := r.Intn(len(c)), r.Intn(len(c))
		n := 1 + r.Intn(32)
		for k := 0; k < n && i+k < len(c) && j+k < len(c); k++ {
			c[i+k] = b[j+k]
		}
		return c, "copy-span"
	default:
		n := 1 + r.Intn(64)
		ext := make([]byte, n)
		r.Read(ext)
		return append(c, ext...), "extend"
	}
}

// WriteItems stores each item's encoded bytes in dir and sets Path.
func WriteItems(dir string, items []*Item, prefix string) error {
	if err := os.MkdirAll(dir, 0o755); err != nil {
		return err
	}
	for i, it := range items {
		if it.Path != "" && it.Setting == "testdata" {
			continue
		}
		it.Path = filepath.Join(dir, fmt.Sprintf("%s%05d.%s", prefix, i, it.Kind))
		if err := os.WriteFile(it.Path, it.Enc, 0o644); err != nil {
			return err
		}
	}
	return nil
}

// FNV1a64 matches wdrive's hash.
func FNV1a64(b []byte) uint64 {
	h := uint64(0xcbf29ce484222325)
	for _, c := range b {
		h ^= uint64(c)
		h *= 0x100000001b3
	}
	return h
}
