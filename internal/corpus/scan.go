package corpus

import (
	"fmt"
	"sort"
	"strings"
)

// ScanDeflate walks a raw DEFLATE stream (its own tiny inflate, no output
// kept beyond what back-references need) and reports which block types occur,
// the longest code length used in a dynamic block, and the largest match
// distance. It returns "" if the stream does not parse.
func ScanDeflate(b []byte) string {
	s := &dscan{b: b}
	types := map[string]bool{}
	maxBits, maxDist := 0, 0
	for {
		final, ok := s.bits(1)
		if !ok {
			return ""
		}
		typ, ok := s.bits(2)
		if !ok {
			return ""
		}
		switch typ {
		case 0:
			types["stored"] = true
			s.nbits, s.acc = 0, 0
			if s.pos+4 > len(b) {
				return ""
			}
			n := int(b[s.pos]) | int(b[s.pos+1])<<8
			s.pos += 4 + n
			if s.pos > len(b) {
				return ""
			}
		case 1, 2:
			var lit, dist *dhuff
			if typ == 1 {
				types["fixed"] = true
				ll := make([]int, 288)
				for i := range ll {
					switch {
					case i < 144:
						ll[i] = 8
					case i < 256:
						ll[i] = 9
					case i < 280:
						ll[i] = 7
					default:
						ll[i] = 8
					}
				}
				dl := make([]int, 30)
				for i := range dl {
					dl[i] = 5
				}
				lit, dist = newDhuff(ll), newDhuff(dl)
			} else {
				types["dynamic"] = true
				hlit, _ := s.bits(5)
				hdist, _ := s.bits(5)
				hclen, ok := s.bits(4)
				if !ok {
					return ""
				}
				order := []int{16, 17, 18, 0, 8, 7, 9, 6, 10, 5, 11, 4, 12, 3, 13, 2, 14, 1, 15}
				cl := make([]int, 19)
				for i := 0; i < hclen+4; i++ {
					v, ok := s.bits(3)
					if !ok {
						return ""
					}
					cl[order[i]] = v
				}
				ch := newDhuff(cl)
				lens := make([]int, 0, 320)
				for len(lens) < hlit+257+hdist+1 {
					sym, ok := s.decode(ch)
					if !ok {
						return ""
					}
					switch {
					case sym < 16:
						lens = append(lens, sym)
					case sym == 16:
						if len(lens) == 0 {
							return ""
						}
						n, _ := s.bits(2)
						for i := 0; i < n+3; i++ {
							lens = append(lens, lens[len(lens)-1])
						}
					case sym == 17:
						n, _ := s.bits(3)
						for i := 0; i < n+3; i++ {
							lens = append(lens, 0)
						}
					default:
						n, _ := s.bits(7)
						for i := 0; i < n+11; i++ {
							lens = append(lens, 0)
						}
					}
				}
				if len(lens) != hlit+257+hdist+1 {
					return ""
				}
				for _, l := range lens {
					if l > maxBits {
						maxBits = l
					}
				}
				lit, dist = newDhuff(lens[:hlit+257]), newDhuff(lens[hlit+257:])
			}
			for {
				sym, ok := s.decode(lit)
				if !ok {
					return ""
				}
				if sym < 256 {
					continue
				}
				if sym == 256 {
					break
				}
				sym -= 257
				if sym >= 29 {
					return ""
				}
				lext := []int{0, 0, 0, 0, 0, 0, 0, 0, 1, 1, 1, 1, 2, 2, 2, 2, 3, 3, 3, 3, 4, 4, 4, 4, 5, 5, 5, 5, 0}
				if _, ok := s.bits(lext[sym]); !ok {
					return ""
				}
				d, ok := s.decode(dist)
				if !ok || d >= 30 {
					return ""
				}
				dbase := []int{1, 2, 3, 4, 5, 7, 9, 13, 17, 25, 33, 49, 65, 97, 129, 193, 257, 385, 513, 769, 1025, 1537, 2049, 3073, 4097, 6145, 8193, 12289, 16385, 24577}
				dext := []int{0, 0, 0, 0, 1, 1, 2, 2, 3, 3, 4, 4, 5, 5, 6, 6, 7, 7, 8, 8, 9, 9, 10, 10, 11, 11, 12, 12, 13, 13}
				e, ok := s.bits(dext[d])
				if !ok {
					return ""
				}
				if dd := dbase[d] + e; dd > maxDist {
					maxDist = dd
				}
			}
		default:
			return ""
		}
		if final == 1 {
			break
		}
	}
	var ts []string
	for t := range types {
		ts = append(ts, t)
	}
	sort.Strings(ts)
	f := strings.Join(ts, "+")
	if maxBits >= 15 {
		f += ";15bit"
	}
	switch {
	case maxDist >= 32768:
		f += ";dist32768"
	case maxDist > 16384:
		f += ";dist>16k"
	case maxDist > 0:
		f += ";match"
	}
	return f
}

type dscan struct {
	b     []byte
	pos   int
	acc   uint32
	nbits int
}

func (s *dscan) bits(n int) (int, bool) {
	for s.nbits < n {
		if s.pos >= len(s.b) {
			return 0, false
		}
		s.acc |= uint32(s.b[s.pos]) << uint(s.nbits)
		s.pos++
		s.nbits += 8
	}
	v := int(s.acc & (1<<uint(n) - 1))
	s.acc >>= uint(n)
	s.nbits -= n
	return v, true
}

type dhuff struct {
	count  [16]int
	symbol []int
}

func newDhuff(lens []int) *dhuff {
	h := &dhuff{symbol: make([]int, len(lens))}
	for _, l := range lens {
		h.count[l]++
	}
	h.count[0] = 0
	var offs [16]int
	for i := 1; i < 16; i++ {
		offs[i] = offs[i-1] + h.count[i-1]
	}
	for s, l := range lens {
		if l != 0 {
			h.symbol[offs[l]] = s
			offs[l]++
		}
	}
	return h
}

func (s *dscan) decode(h *dhuff) (int, bool) {
	code, first, index := 0, 0, 0
	for l := 1; l < 16; l++ {
		b, ok := s.bits(1)
		if !ok {
			return 0, false
		}
		code |= b
		c := h.count[l]
		if code-c < first {
			return h.symbol[index+(code-first)], true
		}
		index += c
		first += c
		first <<= 1
		code <<= 1
	}
	return 0, false
}

var _ = fmt.Sprint
