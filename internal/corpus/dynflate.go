package corpus

import (
	"bytes"
	"compress/flate"
	"fmt"
	"io"
	"math/rand"
)

// A hand assembler for DEFLATE dynamic-Huffman blocks with random (also
// degenerate) trees: the shapes Go's encoder never emits — single-code
// distance trees, no distance codes at all, codes of length 15, unused
// symbols, run-length coded length tables — plus deliberately invalid uses
// (the unassigned code of a one-code tree, distances beyond the history).

type bitw struct {
	b    []byte
	acc  uint64
	nacc uint
}

func (w *bitw) bits(v uint32, n uint) { // LSB first
	w.acc |= uint64(v) << w.nacc
	w.nacc += n
	for w.nacc >= 8 {
		w.b = append(w.b, byte(w.acc))
		w.acc >>= 8
		w.nacc -= 8
	}
}

// huff writes a Huffman code (MSB of the code first, as DEFLATE packs them).
func (w *bitw) huff(code uint32, n uint) {
	for i := int(n) - 1; i >= 0; i-- {
		w.bits((code>>uint(i))&1, 1)
	}
}

func (w *bitw) flush() []byte {
	if w.nacc > 0 {
		w.b = append(w.b, byte(w.acc))
		w.acc, w.nacc = 0, 0
	}
	return w.b
}

// randomLengths returns code lengths (complete prefix code) for k used symbols,
// none longer than maxLen.
func randomLengths(r *rand.Rand, k int, maxLen int) []int {
	if k == 1 {
		return []int{1}
	}
	ls := []int{1, 1}
	for len(ls) < k {
		// split a random leaf that can still be split
		var cand []int
		for i, l := range ls {
			if l < maxLen {
				cand = append(cand, i)
			}
		}
		if len(cand) == 0 {
			break
		}
		i := cand[r.Intn(len(cand))]
		if r.Intn(3) == 0 { // bias towards deep trees: split the longest
			for _, c := range cand {
				if ls[c] > ls[i] {
					i = c
				}
			}
		}
		ls[i]++
		ls = append(ls, ls[i])
	}
	return ls
}

// canon assigns canonical codes to lengths (index = symbol; 0 = unused).
func canon(lens []int) []uint32 {
	var blCount [16]int
	for _, l := range lens {
		blCount[l]++
	}
	blCount[0] = 0
	var next [16]uint32
	code := uint32(0)
	for b := 1; b < 16; b++ {
		code = (code + uint32(blCount[b-1])) << 1
		next[b] = code
	}
	out := make([]uint32, len(lens))
	for s, l := range lens {
		if l != 0 {
			out[s] = next[l]
			next[l]++
		}
	}
	return out
}

var lenBase = []int{3, 4, 5, 6, 7, 8, 9, 10, 11, 13, 15, 17, 19, 23, 27, 31, 35, 43, 51, 59, 67, 83, 99, 115, 131, 163, 195, 227, 258}
var lenExtra = []uint{0, 0, 0, 0, 0, 0, 0, 0, 1, 1, 1, 1, 2, 2, 2, 2, 3, 3, 3, 3, 4, 4, 4, 4, 5, 5, 5, 5, 0}
var distBase = []int{1, 2, 3, 4, 5, 7, 9, 13, 17, 25, 33, 49, 65, 97, 129, 193, 257, 385, 513, 769, 1025, 1537, 2049, 3073, 4097, 6145, 8193, 12289, 16385, 24577}
var distExtra = []uint{0, 0, 0, 0, 1, 1, 2, 2, 3, 3, 4, 4, 5, 5, 6, 6, 7, 7, 8, 8, 9, 9, 10, 10, 11, 11, 12, 12, 13, 13}

// DynDeflateItem assembles one stream of 1..3 dynamic blocks. hostile > 0
// selects an invalid construction.
func DynDeflateItem(r *rand.Rand, hostile int) *Item {
	w := &bitw{}
	var out []byte
	nblocks := 1 + r.Intn(3)
	feature := ""
	invalid := ""
	for blk := 0; blk < nblocks; blk++ {
		final := blk == nblocks-1
		// literal/length alphabet
		nlit := 1 + r.Intn(12)
		nlen := r.Intn(6)
		distMode := r.Intn(5) // 0 none, 1 single code, 2.. full
		if nlen == 0 {
			distMode = []int{0, 1, 2}[r.Intn(3)]
		}
		maxLL := []int{7, 9, 15}[r.Intn(3)]
		syms := map[int]bool{256: true}
		for len(syms) < 1+nlit {
			syms[r.Intn(256)] = true
		}
		var lenSyms []int
		for i := 0; i < nlen; i++ {
			s := 257 + r.Intn(29)
			if !syms[s] {
				syms[s] = true
				lenSyms = append(lenSyms, s)
			}
		}
		var used []int
		for s := range syms {
			used = append(used, s)
		}
		// deterministic order
		for i := 1; i < len(used); i++ {
			for j := i; j > 0 && used[j] < used[j-1]; j-- {
				used[j], used[j-1] = used[j-1], used[j]
			}
		}
		ll := make([]int, 286)
		rl := randomLengths(r, len(used), maxLL)
		r.Shuffle(len(rl), func(i, j int) { rl[i], rl[j] = rl[j], rl[i] })
		for i, s := range used {
			if i < len(rl) {
				ll[s] = rl[i]
			}
		}
		if len(used) == 1 {
			ll[256] = 1
		}
		// distance alphabet
		dl := make([]int, 30)
		var dsyms []int
		switch distMode {
		case 0:
			feature += "nodist,"
		case 1:
			d := r.Intn(30)
			dl[d] = 1
			dsyms = []int{d}
			feature += "onedist,"
		default:
			k := 2 + r.Intn(8)
			seen := map[int]bool{}
			for len(seen) < k {
				seen[r.Intn(30)] = true
			}
			for d := 0; d < 30; d++ {
				if seen[d] {
					dsyms = append(dsyms, d)
				}
			}
			dls := randomLengths(r, len(dsyms), []int{5, 9, 15}[r.Intn(3)])
			for i, d := range dsyms {
				dl[d] = dls[i]
			}
			feature += "dist,"
		}
		hlit := 286
		for hlit > 257 && ll[hlit-1] == 0 {
			hlit--
		}
		hdist := 30
		for hdist > 1 && dl[hdist-1] == 0 {
			hdist--
		}
		all := append(append([]int{}, ll[:hlit]...), dl[:hdist]...)
		// run-length code the table
		type clsym struct{ sym, extra, ebits int }
		var cls []clsym
		useRLE := r.Intn(3) != 0
		for i := 0; i < len(all); {
			j := i
			for j < len(all) && all[j] == all[i] {
				j++
			}
			run := j - i
			switch {
			case useRLE && all[i] == 0 && run >= 11:
				n := run
				if n > 138 {
					n = 138
				}
				cls = append(cls, clsym{18, n - 11, 7})
				i += n
			case useRLE && all[i] == 0 && run >= 3:
				n := run
				if n > 10 {
					n = 10
				}
				cls = append(cls, clsym{17, n - 3, 3})
				i += n
			case useRLE && i > 0 && all[i] == all[i-1] && run >= 3:
				n := run
				if n > 6 {
					n = 6
				}
				cls = append(cls, clsym{16, n - 3, 2})
				i += n
			default:
				cls = append(cls, clsym{all[i], 0, 0})
				i++
			}
		}
		clUsed := map[int]bool{}
		for _, c := range cls {
			clUsed[c.sym] = true
		}
		var clSyms []int
		for s := 0; s < 19; s++ {
			if clUsed[s] {
				clSyms = append(clSyms, s)
			}
		}
		if len(clSyms) == 1 { // a code needs two leaves to be complete
			clSyms = append(clSyms, (clSyms[0]+1)%19)
		}
		cll := make([]int, 19)
		for i, l := range randomLengths(r, len(clSyms), 7) {
			cll[clSyms[i]] = l
		}
		order := []int{16, 17, 18, 0, 8, 7, 9, 6, 10, 5, 11, 4, 12, 3, 13, 2, 14, 1, 15}
		hclen := 19
		for hclen > 4 && cll[order[hclen-1]] == 0 {
			hclen--
		}
		fb := uint32(0)
		if final {
			fb = 1
		}
		w.bits(fb, 1)
		w.bits(2, 2)
		w.bits(uint32(hlit-257), 5)
		w.bits(uint32(hdist-1), 5)
		w.bits(uint32(hclen-4), 4)
		for i := 0; i < hclen; i++ {
			w.bits(uint32(cll[order[i]]), 3)
		}
		clc := canon(cll)
		for _, c := range cls {
			w.huff(clc[c.sym], uint(cll[c.sym]))
			if c.ebits > 0 {
				w.bits(uint32(c.extra), uint(c.ebits))
			}
		}
		llc, dlc := canon(ll), canon(dl)
		for _, l := range ll {
			if l == 15 {
				feature += "15bit,"
				break
			}
		}
		// data
		nsym := r.Intn(40)
		for i := 0; i < nsym; i++ {
			if len(lenSyms) > 0 && len(dsyms) > 0 && len(out) > 0 && r.Intn(3) == 0 {
				ls := lenSyms[r.Intn(len(lenSyms))]
				li := ls - 257
				length := lenBase[li]
				ex := uint32(0)
				if lenExtra[li] > 0 {
					ex = uint32(r.Intn(1 << lenExtra[li]))
					length += int(ex)
				}
				if li == 28 {
					length = 258
				}
				ds := dsyms[r.Intn(len(dsyms))]
				dex := uint32(0)
				if distExtra[ds] > 0 {
					dex = uint32(r.Intn(1 << distExtra[ds]))
				}
				dist := distBase[ds] + int(dex)
				if dist > len(out) {
					if hostile != 2 || invalid != "" {
						continue // keep the stream valid
					}
					invalid = "distance-too-far"
				}
				w.huff(llc[ls], uint(ll[ls]))
				if lenExtra[li] > 0 {
					w.bits(ex, lenExtra[li])
				}
				w.huff(dlc[ds], uint(dl[ds]))
				if distExtra[ds] > 0 {
					w.bits(dex, distExtra[ds])
				}
				if invalid == "" {
					for k := 0; k < length; k++ {
						out = append(out, out[len(out)-dist])
					}
				}
				continue
			}
			if hostile == 1 && invalid == "" && distMode == 1 && len(lenSyms) > 0 && len(out) > 0 && r.Intn(4) == 0 {
				// use the unassigned code of the one-code distance tree (the '1' bit)
				ls := lenSyms[r.Intn(len(lenSyms))]
				w.huff(llc[ls], uint(ll[ls]))
				if lenExtra[ls-257] > 0 {
					w.bits(0, lenExtra[ls-257])
				}
				w.bits(1, 1)
				invalid = "unassigned-distance-code"
				continue
			}
			// a literal
			var lits []int
			for _, s := range used {
				if s < 256 {
					lits = append(lits, s)
				}
			}
			if len(lits) == 0 {
				break
			}
			s := lits[r.Intn(len(lits))]
			w.huff(llc[s], uint(ll[s]))
			if invalid == "" {
				out = append(out, byte(s))
			}
		}
		if hostile == 3 && invalid == "" && final {
			for i := 0; i < 1+r.Intn(6); i++ {
				w.bits(uint32(r.Intn(256)), 8)
			}
			invalid = "random-tail"
		}
		w.huff(llc[256], uint(ll[256]))
	}
	enc := w.flush()
	it := &Item{Kind: "deflate", Enc: enc, Setting: "hand-assembled:" + feature, PClass: "dyn", Feature: ScanDeflate(enc)}
	if invalid != "" {
		it.Setting = "hostile:" + invalid + ":" + feature
		return it
	}
	// keep only streams Go's decoder accepts with the same output
	got, err := io.ReadAll(flate.NewReader(bytes.NewReader(enc)))
	if err != nil || !bytes.Equal(got, out) {
		it.Setting = "hostile:go-rejects:" + feature + fmt.Sprint(err)
		return it
	}
	it.Payload = out
	it.Valid = true
	return it
}
