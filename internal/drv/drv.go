// Package drv is the driver side of vcheck: building helpers from /repo's
// working tree, running monitor children, matching known findings, writing
// evidence and producing the exit status.
package drv

import (
	"bytes"
	"encoding/json"
	"fmt"
	"os"
	"os/exec"
	"path/filepath"
	"regexp"
	"sort"
	"strings"
	"sync"
	"syscall"
	"time"

	"verif/internal/vk"
)

// VerifDir is where the framework's sources, known findings, cache and
// evidence live: always /verif for registered checks. VERIF_DIR lets a
// developer run a frozen snapshot of the framework (mutation-testing sweeps
// that must not see half-finished edits); registered commands never set it.
var VerifDir = "/verif"

// RepoDir is the tree under test. It is always /repo for registered checks;
// VERIF_REPO lets a developer point a run at a scratch worktree (mutation
// testing) without touching /repo.
var RepoDir = "/repo"

func init() {
	if v := os.Getenv("VERIF_REPO"); v != "" {
		RepoDir = v
	}
	if v := os.Getenv("VERIF_DIR"); v != "" {
		VerifDir = v
	}
}

// modfileArgs returns the -modfile argument redirecting the wuffs module to
// RepoDir when it is not /repo.
func (r *Run) modfileArgs() []string {
	if RepoDir == "/repo" {
		return nil
	}
	alt := filepath.Join(r.Scratch, "go.alt.mod")
	if _, err := os.Stat(alt); err != nil {
		b, _ := os.ReadFile(filepath.Join(VerifDir, "go.mod"))
		s := strings.Replace(string(b), "=> /repo", "=> "+RepoDir, 1)
		os.WriteFile(alt, []byte(s), 0o644)
		sum, _ := os.ReadFile(filepath.Join(VerifDir, "go.sum"))
		os.WriteFile(filepath.Join(r.Scratch, "go.alt.sum"), sum, 0o644)
	}
	return []string{"-modfile=" + alt}
}

// Run is the state of one vcheck invocation.
type Run struct {
	ID      string
	Tier    string
	Seed    int64
	Replay  string // path of a replay file, or ""
	Start   time.Time
	Scratch string
	Res     vk.Result
	Extra   map[string]interface{} // extra coverage keys
	mu      sync.Mutex
}

func (r *Run) Thorough() bool { return r.Tier == "thorough" }

func GoEnv(extra ...string) []string {
	env := os.Environ()
	env = append(env, "GOFLAGS=-mod=mod", "GOPROXY=off", "GOSUMDB=off", "GOTOOLCHAIN=local")
	env = append(env, extra...)
	return env
}

func Logf(format string, a ...interface{}) {
	fmt.Fprintf(os.Stderr, "[vcheck] "+format+"\n", a...)
}

// NewScratch makes the run's scratch directory.
func (r *Run) NewScratch(preferShm bool) {
	base := os.Getenv("TMPDIR")
	if base == "" {
		base = "/tmp"
	}
	if preferShm {
		if st, err := os.Stat("/dev/shm"); err == nil && st.IsDir() {
			base = "/dev/shm"
		}
	}
	d, err := os.MkdirTemp(base, "verif."+r.ID+".")
	if err != nil {
		Fatal("mkdtemp: %v", err)
	}
	r.Scratch = d
}

func (r *Run) Cleanup() {
	if r.Scratch != "" && os.Getenv("VERIF_KEEP") == "" {
		os.RemoveAll(r.Scratch)
	}
}

// Fatal is an infrastructure failure: inconclusive, exit 2.
func Fatal(format string, a ...interface{}) {
	fmt.Fprintf(os.Stderr, "[vcheck] INCONCLUSIVE: "+format+"\n", a...)
	os.Exit(2)
}

// BuildOpts selects a build variant of a Go helper.
type BuildOpts struct {
	Tags  string
	Race  bool
	NoCgo bool
	Test  bool // go test -c
}

var buildMu sync.Mutex

// BuildGo builds package pkg (relative to /verif) into the scratch directory
// and returns the binary path. The build goes through the module's replace
// directive, so it always compiles /repo's current working tree.
func (r *Run) BuildGo(pkg, name string, o BuildOpts) (string, error) {
	out := filepath.Join(r.Scratch, name)
	args := []string{"build"}
	if o.Test {
		args = []string{"test", "-c", "-vet=off"}
	}
	if o.Tags != "" {
		args = append(args, "-tags", o.Tags)
	}
	if o.Race {
		args = append(args, "-race")
	}
	args = append(args, r.modfileArgs()...)
	args = append(args, "-o", out, pkg)
	cmd := exec.Command("go", args...)
	cmd.Dir = VerifDir
	env := GoEnv()
	if o.NoCgo {
		env = append(env, "CGO_ENABLED=0")
	}
	cmd.Env = env
	var buf bytes.Buffer
	cmd.Stdout = &buf
	cmd.Stderr = &buf
	t0 := time.Now()
	if err := cmd.Run(); err != nil {
		return "", fmt.Errorf("go %s: %v\n%s", strings.Join(args, " "), err, tail(buf.String(), 4000))
	}
	Logf("built %s in %.1fs", name, time.Since(t0).Seconds())
	return out, nil
}

func tail(s string, n int) string {
	if len(s) <= n {
		return s
	}
	return "..." + s[len(s)-n:]
}

// ChildOpts controls a monitor child.
type ChildOpts struct {
	CPUSec      uint64
	ASBytes     uint64
	WallSec     int
	Env         []string
	CrashIsViol bool   // an abnormal exit is a verdict on the marked case (else inconclusive)
	CrashSigPfx string // prefix for the crash signature
}

var (
	rePanic = regexp.MustCompile(`(?m)^(panic: .*|fatal error: .*|SIG[A-Z]+: .*|==\d+==ERROR: .*|.*runtime error: .*)$`)
	reFrame = regexp.MustCompile(`(?m)^(github\.com/google/wuffs/[^\s(]+)\(`)
)

// CrashClass summarises a Go child's stderr into a signature: the first
// panic/fatal line (numbers blanked) and the first wuffs frame.
func CrashClass(stderr string) string {
	m := rePanic.FindString(stderr)
	if m == "" {
		m = "abnormal-exit"
	}
	m = regexp.MustCompile(`0x[0-9a-fA-F]+|\d+`).ReplaceAllString(m, "N")
	if len(m) > 120 {
		m = m[:120]
	}
	f := ""
	if fm := reFrame.FindStringSubmatch(stderr); fm != nil {
		f = fm[1]
		f = strings.TrimPrefix(f, "github.com/google/wuffs/")
	}
	return m + " @" + f
}

// RunShards runs `bin <args> --shard i --nshards n ...` for i in [0,n) in
// parallel and merges the results into r.Res.
func (r *Run) RunShards(bin string, phase string, n int, args []string, o ChildOpts) {
	if o.WallSec == 0 {
		o.WallSec = 3600
	}
	var wg sync.WaitGroup
	sem := make(chan struct{}, 16)
	for i := 0; i < n; i++ {
		wg.Add(1)
		go func(i int) {
			defer wg.Done()
			sem <- struct{}{}
			defer func() { <-sem }()
			r.runOne(bin, phase, i, n, args, o)
		}(i)
	}
	wg.Wait()
}

func (r *Run) runOne(bin, phase string, i, n int, args []string, o ChildOpts) {
	tag := fmt.Sprintf("%s.%d", phase, i)
	out := filepath.Join(r.Scratch, tag+".result.json")
	mark := filepath.Join(r.Scratch, tag+".mark")
	errPath := filepath.Join(r.Scratch, tag+".stderr")
	full := append([]string{}, args...)
	full = append(full, "--tier", r.Tier, "--seed", fmt.Sprint(r.Seed), "--shard", fmt.Sprint(i),
		"--nshards", fmt.Sprint(n), "--out", out, "--mark", mark,
		"--cpu", fmt.Sprint(o.CPUSec), "--as", fmt.Sprint(o.ASBytes))
	if r.Replay != "" {
		full = append(full, "--replay", r.Replay)
	}
	cmd := exec.Command(bin, full...)
	cmd.Dir = r.Scratch
	cmd.Env = append(os.Environ(), o.Env...)
	ef, _ := os.Create(errPath)
	cmd.Stderr = ef
	cmd.Stdout = ef
	cmd.SysProcAttr = &syscall.SysProcAttr{Setpgid: true}
	if err := cmd.Start(); err != nil {
		ef.Close()
		r.inconclusive(fmt.Sprintf("%s: cannot start child: %v", tag, err))
		return
	}
	done := make(chan error, 1)
	go func() { done <- cmd.Wait() }()
	var werr error
	timedOut := false
	select {
	case werr = <-done:
	case <-time.After(time.Duration(o.WallSec) * time.Second):
		timedOut = true
		syscall.Kill(-cmd.Process.Pid, syscall.SIGKILL)
		werr = <-done
	}
	ef.Close()
	var res vk.Result
	if b, err := os.ReadFile(out); err == nil {
		json.Unmarshal(b, &res)
	}
	r.mu.Lock()
	vk.Merge(&r.Res, &res)
	r.mu.Unlock()
	if timedOut {
		r.inconclusive(fmt.Sprintf("%s: wall-clock watchdog (%ds) fired", tag, o.WallSec))
		return
	}
	if werr != nil {
		eb, _ := os.ReadFile(errPath)
		mk, _ := os.ReadFile(mark)
		mks := strings.TrimSpace(string(mk))
		cls := CrashClass(string(eb))
		if ws, ok := cmd.ProcessState.Sys().(syscall.WaitStatus); ok && ws.Signaled() {
			if ws.Signal() == syscall.SIGXCPU || ws.Signal() == syscall.SIGKILL {
				cls = "cpu-budget-exceeded(" + ws.Signal().String() + ") " + cls
			}
		}
		if o.CrashIsViol && mks != "" {
			// Keep the stderr tail for the replay file.
			r.mu.Lock()
			r.Res.Violations = append(r.Res.Violations, vk.Violation{
				Sig:  o.CrashSigPfx + cls,
				What: fmt.Sprintf("child %s died (%v) at case [%s]: %s", tag, werr, mks, cls),
				Replay: map[string]interface{}{"shard": i, "nshards": n, "mark": mks,
					"stderr_tail": tail(string(eb), 3000)},
			})
			r.mu.Unlock()
		} else {
			r.inconclusive(fmt.Sprintf("%s: child failed: %v mark=[%s]\n%s", tag, werr, mks, tail(string(eb), 3000)))
		}
	}
}

func (r *Run) inconclusive(s string) {
	r.mu.Lock()
	r.Res.Inconclusive = append(r.Res.Inconclusive, s)
	r.mu.Unlock()
}

func (r *Run) Inconclusive(s string) { r.inconclusive(s) }

// Known findings -------------------------------------------------------

type knownEntry struct {
	Property string `json:"property"`
	Sig      string `json:"sig"`
	What     string `json:"what"`
}

type fixedEntry struct {
	Property string `json:"property"`
	Commit   string `json:"commit"`
	What     string `json:"what"`
}

type knownFile struct {
	Known []knownEntry `json:"known"`
	Fixed []fixedEntry `json:"fixed"`
}

func loadKnown() knownFile {
	var kf knownFile
	b, err := os.ReadFile(filepath.Join(VerifDir, "known_findings.json"))
	if err == nil {
		if err := json.Unmarshal(b, &kf); err != nil {
			Fatal("known_findings.json: %v", err)
		}
	}
	return kf
}

// Spec describes how a property's evidence is labelled.
type Spec struct {
	Level       string
	Rule        string
	Assumptions []string
	MinEvals    int64
	MinClasses  int
	Exhaustive  bool
}

// Finish writes the evidence file, prints verdict lines and returns the exit
// status: 0 held, 1 violated, 2 inconclusive.
func (r *Run) Finish(sp Spec) int {
	kf := loadKnown()
	known := map[string]knownEntry{}
	for _, k := range kf.Known {
		if k.Property == r.ID {
			known[k.Sig] = k
		}
	}
	// Deduplicate violations by signature.
	bySig := map[string][]vk.Violation{}
	var sigs []string
	for _, v := range r.Res.Violations {
		if _, ok := bySig[v.Sig]; !ok {
			sigs = append(sigs, v.Sig)
		}
		bySig[v.Sig] = append(bySig[v.Sig], v)
	}
	sort.Strings(sigs)
	newViol := 0
	knownSeen := 0
	replayDir := filepath.Join(VerifDir, "evidence", "replay")
	for _, s := range sigs {
		vs := bySig[s]
		if k, ok := known[s]; ok {
			fmt.Printf("KNOWN-FINDING: property=%s %s [sig=%s; re-observed %d time(s)]\n", r.ID, k.What, s, len(vs))
			knownSeen++
			continue
		}
		newViol++
		os.MkdirAll(replayDir, 0o755)
		path := filepath.Join(replayDir, fmt.Sprintf("%s-%s-%d-%d.json", r.ID, r.Tier, r.Seed, newViol))
		rp := map[string]interface{}{
			"property": r.ID, "tier": r.Tier, "seed": r.Seed, "sig": s,
			"what": vs[0].What, "detail": vs[0].Replay, "occurrences": len(vs),
		}
		b, _ := json.MarshalIndent(rp, "", " ")
		os.WriteFile(path, b, 0o644)
		fmt.Fprintf(os.Stderr, "[vcheck] violation sig=%s\n  %s\n", s, vs[0].What)
		fmt.Printf("VIOLATION property=%s replay=%s\n", r.ID, path)
	}
	distinct := len(r.Res.Classes)
	status := 0
	if newViol > 0 {
		status = 1
	} else if len(r.Res.Inconclusive) > 0 {
		status = 2
	} else if r.Replay == "" && (r.Res.Evaluations < sp.MinEvals || distinct < sp.MinClasses) {
		r.Res.Inconclusive = append(r.Res.Inconclusive,
			fmt.Sprintf("observed too little: evaluations=%d (min %d) distinct=%d (min %d)",
				r.Res.Evaluations, sp.MinEvals, distinct, sp.MinClasses))
		status = 2
	}
	for _, s := range r.Res.Inconclusive {
		fmt.Fprintf(os.Stderr, "[vcheck] INCONCLUSIVE: %s\n", s)
	}
	if r.Replay != "" {
		return status
	}
	cov := map[string]interface{}{
		"evaluations":         r.Res.Evaluations,
		"distinct_nontrivial": distinct,
		"rule":                sp.Rule,
		"samples":             r.Res.Samples,
		"counters":            r.Res.Counters,
		"exhaustive":          sp.Exhaustive,
		"known_findings_seen": knownSeen,
		"inconclusive":        r.Res.Inconclusive,
	}
	cls := vk.SortedKeys(r.Res.Classes)
	if len(cls) > 60 {
		cov["classes_first60"] = cls[:60]
	} else {
		cov["classes"] = cls
	}
	for k, v := range r.Extra {
		cov[k] = v
	}
	if len(r.Res.Samples) == 0 {
		cov["samples"] = []interface{}{"(no sample recorded)"}
	}
	ev := map[string]interface{}{
		"property_id": r.ID,
		"tier":        r.Tier,
		"seed":        r.Seed,
		"level":       sp.Level,
		"coverage":    cov,
		"assumptions": sp.Assumptions,
		"wall_s":      time.Since(r.Start).Seconds(),
		"violations":  newViol,
		"verdict":     []string{"held-on-observed", "violated", "inconclusive"}[status],
	}
	b, _ := json.MarshalIndent(ev, "", " ")
	os.MkdirAll(filepath.Join(VerifDir, "evidence"), 0o755)
	p := filepath.Join(VerifDir, "evidence", r.ID+".json")
	if err := os.WriteFile(p+".tmp", b, 0o644); err == nil {
		os.Rename(p+".tmp", p)
	}
	Logf("%s tier=%s seed=%d evaluations=%d distinct=%d violations=%d known=%d status=%d wall=%.1fs",
		r.ID, r.Tier, r.Seed, r.Res.Evaluations, distinct, newViol, knownSeen, status, time.Since(r.Start).Seconds())
	return status
}

// ReplayInfo reads back a replay file.
type ReplayInfo struct {
	Property string                 `json:"property"`
	Tier     string                 `json:"tier"`
	Seed     int64                  `json:"seed"`
	Sig      string                 `json:"sig"`
	Detail   map[string]interface{} `json:"detail"`
}

func LoadReplay(path string) (*ReplayInfo, error) {
	b, err := os.ReadFile(path)
	if err != nil {
		return nil, err
	}
	var ri ReplayInfo
	if err := json.Unmarshal(b, &ri); err != nil {
		return nil, err
	}
	return &ri, nil
}
